"""C16 - direct-write statements are delivered synchronously and errors surface.

Real PrintrunWriter (through SerialWriter / SocketWriter or bare) -> real printcore
-> real Device -> FakeSerial / FakeSocket <-> generic-ack firmware model.
"""
from lanes import common
from sim import shims
from sim.kernel import SimAbort

QUERIES = [
    ("M114", "X:{x} Y:{y} Z:{z} E:0.00 Count X:{x} Y:{y} Z:{z}"),
    ("M105", "T:{x} /0.0 B:{y} /0.0 @:0 B@:0"),
    ("?", "<Idle|MPos:{x},{y},{z}|FS:0,0>"),
]
UNSOL = ["", " ", "echo:busy: processing", " T:21.3 /0.0 B:20.1 /0.0 @:0 B@:0", "[MSG:Pgm End]",
         "echo:Unknown command: \"foo\"", "wait", "//action:notification idle",
         "<Run|MPos:1.000,2.000,3.000|FS:100,0>"]
UNSOL_READINGS = {
    "T:21.3 /0.0 B:20.1 /0.0 @:0 B@:0": {"T": 21.3, "B": 20.1},
    "<Run|MPos:1.000,2.000,3.000|FS:100,0>": {"X": 1.0, "Y": 2.0, "Z": 3.0, "F": 100.0, "S": 0.0},
}
ERRS = ["error:20", "error:9", "ALARM:1", "!! Printer halted", "Error:Printer halted. kill() called!",
        "error: checksum mismatch", "alarm:2", "ERROR:1"]
GREETINGS = ["start", "Grbl 1.1h ['$' for help]", "", "start\necho:Marlin 2.1.2"]


def gen(seed, run, sub="clean", tier="quick"):
    r = common.rng_for(seed, run, "c16/" + sub)
    transport = r.choice(["serial", "serial", "socket"])
    n = r.choice([1, 2, 3, 4, 6, 8, 12, 25]) if tier == "thorough" else r.choice([1, 2, 3, 4, 6, 10])
    stmts, replies, readings = [], {}, {}
    for i in range(n):
        u = r.random()
        if u < 0.2:
            q, rep = r.choice(QUERIES)
            text = "%s ; q%d" % (q, i) if q != "?" else "? ;q%d" % i
            x, y, z = (round(r.uniform(-500, 500), r.choice([0, 1, 3])) for _ in range(3))
            line = rep.format(x=x, y=y, z=z)
            replies[str(i)] = [line, "ok"]
            readings[line] = ({"X": x, "Y": y, "Z": z, "E": 0.0} if q == "M114" else
                              {"T": x, "B": y} if q == "M105" else
                              {"X": x, "Y": y, "Z": z, "F": 0.0, "S": 0.0})
        elif u < 0.70:
            text = "G1 X%d Y%s F%d" % (i, r.choice(["0", "-1.5", "12.25"]), 100 + i)
        elif u < 0.72:
            # one-character and '$' statements (Grbl real-time and system commands): the firmware
            # model acknowledges every line, whatever it says
            left = [t for t in ("?", "!", "~", "$X", "$H", "$$", "\x18") if t not in stmts]
            text = r.choice(left) if left else "G1 X%d" % i
        elif u < 0.80:
            # inner tabs / runs of blanks, surrounding whitespace (only the latter is stripped)
            text = r.choice(["G1   X%d\tY3", "M117 Layer  %d   of 10", "  G0 X%d  Z1.5\t", "\tM118  stmt %d  done",
                             "G1 X%d ; spaced   comment\twith tab"]) % i
        elif u < 0.86:
            # words the host must not interpret: it is the device's replies that matter
            text = r.choice(["M117 ok %d", "M117 error: none %d", "M118 Resend: %d", "M117 !! %d", "M117 start %d"]) % i
        else:
            # exact lengths around typical block sizes, and long statements
            want = r.choice([63, 64, 65, 127, 128, 129, 191, 192, 255, 256, 257, 384, 512])
            head = "M117 %d " % i
            text = head + "".join(r.choice("abcdefghijklmnopqrstuvwxyz0123456789") for _ in range(max(1, want - len(head))))
        stmts.append(text)
    err_rate = r.choice([0.0, 0.0, 0.15, 0.4])
    for i in range(n):
        if r.random() < err_rate:
            e_ = r.choice(ERRS)
            if r.random() < 0.4:       # any numeric code, not only the well-known ones
                e_ = r.choice(["error:%d", "ALARM:%d", "error: %d", "Error:%d"]) % r.choice([0, 1, 9, 18, 20, 39, 60, 79, 99, 255])
            replies[str(i)] = [e_]
    # a statement the device takes very long to acknowledge (homing, heating): longer than the
    # writer's 30 s default time-out, or than a time-out the caller configured
    slow = {}
    if r.random() < 0.2:
        slow[str(r.randrange(n))] = round(r.choice([31.0, 45.0, 90.0]) + r.random(), 3)
    timeout = r.choice([0.3, 1.0, 5.0]) if (sub == "clean" and r.random() < 0.25) else None
    draws = common.gen_draws(r)
    if transport == "serial" and r.random() < 0.1:
        draws["wblock"] = [r.choice([0, 0, 0, 0, 0.5, 12.0, 25.0]) for _ in range(16)]   # slow port now and then
    if transport == "socket":
        fr = r.choice([0, 1, 2, 3, 7, 64])
        draws["cut"] = [r.choice([fr, fr, 0.5, 0]) for _ in range(24)] if fr else []
        if r.random() < 0.4:      # reply lines travelling in two segments, sometimes > read time-out apart
            draws["seg"] = [r.choice([0, 0, 0.3, 0.5, 0.9]) for _ in range(16)]
            draws["seggap"] = [r.choice([0.0, 0.001, 0.1, 0.3, 0.6]) for _ in range(8)]
        draws["spurious"] = [1 if r.random() < 0.1 else 0 for _ in range(16)] if r.random() < 0.3 else []
    cfg = {"greeting": r.choice(GREETINGS), "boot": r.choice([0.0, 0.05, 1.2]),
           "drop_while_booting": r.random() < 0.3, "resend_with_ok": True,
           "dev_eol": r.choice(["\n", "\n", "\r\n"]), "ok_style": r.choice(["plain", "plain", "advanced"])}
    if not cfg["greeting"]:
        cfg["drop_while_booting"] = False if r.random() < 0.7 else True
    if cfg["greeting"].startswith("Grbl") and r.random() < 0.85:
        # a Grbl device that drops the G4 P0 probe makes connect() poll forever (outside C16);
        # keep that environment rare so that runs exercise write()/disconnect()
        cfg["drop_while_booting"] = False
    faults = []
    if r.random() < 0.5:
        for _ in range(r.choice([1, 2, 5])):
            faults.append({"k": "unsol", "rx": r.randrange(0, n + 4), "dt": round(r.choice([0, 0.001, 0.05, 0.3]), 6),
                           "text": r.choice(UNSOL)})
    if r.random() < 0.2:
        modes = ["serial-exc"] if transport == "serial" else ["eof", "reset", "wfail"]
        faults.append({"k": "loss", "rx": r.randrange(2, n + 4), "dt": round(r.choice([0, 0.0005, 0.02]), 6),
                       "mode": r.choice(modes), "phase": r.choice(["rx", "processed"])})
    ops = []
    if r.random() < 0.06:
        ops.append(["signal_other"])
    explicit = True if sub == "clean" else (r.random() < 0.5)
    if explicit and sub == "clean" and cfg["boot"] >= 1.0 and r.random() < 0.3:
        ops.append(["connect_timeout", r.choice([0.05, 0.3])])      # gives up before the device has booted
    if explicit:
        ops.append(["connect"])
    if sub == "clean":
        ops.append(["settle"])
    half = None
    if sub == "clean" and n >= 3 and r.random() < 0.15:
        half = r.randrange(1, n)
    if timeout is not None and half is None:
        ops.append(["timeout", timeout])
    idle_err_at = r.randrange(n) if (sub == "clean" and n >= 2 and r.random() < 0.15) else None
    for i in range(n):
        if idle_err_at is not None and i == idle_err_at and i > 0:
            ops.append(["idle_error", r.choice(["ALARM:1", "error:9", "!! spindle fault", "Alarm:3"])])
        if half is not None and i == half:
            ops.append(["disconnect", True])
            ops.append(["connect"])
            if sub == "clean":
                ops.append(["settle"])
        ops.append(["write", i])
    ops.append(["disconnect", True])
    via = "delegate" if r.random() < 0.5 else "bare"
    sched = common.gen_sched(r, "%s/%s/c16" % (seed, run), est_steps=300 + 250 * n)
    if half is not None and r.random() < 0.4:
        # reconnect sessions: threads that make no progress for seconds around disconnect()/connect()
        sched = {"seed": "%s/%s/c16" % (seed, run), "policy": "hot", "p": 0.01, "p_hot": 0.3, "pp": 0.3,
                 "p_stall": 0.3, "stall_max": 2.5}
    return {
        "lane": "c16", "sub": sub, "transport": transport, "via": via, "cfg": cfg,
        "stmts": stmts, "replies": replies, "faults": faults, "ops": ops, "draws": draws,
        "readings": dict(readings, **UNSOL_READINGS), "slow": slow, "ctx": r.random() < 0.2,
        "host": r.choice(["10.0.0.5", "10.0.0.5", "localhost", "cnc-router", "my-printer.local", "printer01.lab.example.com",
                          "192.168.1.250"]),
        "tcp_port": r.choice([8080, 8080, 23, 1, 65535]),
        "eol": r.choice(["\n", "\r\n", ""]), "max_steps": 60000,
        "sched": sched,
    }


HANDSHAKE = ("G4 P0",)


def is_handshake(text):
    t = text.strip()
    return t in HANDSHAKE or "M110" in t


def execute(scn, guide=None, keep=False, observer=None):
    k, env = common.build(scn, guide)
    fw = env["fw"]
    m = shims.repo_modules()
    from gscrib.excepts import DeviceError
    stmts = scn["stmts"]
    replies = scn.get("replies", {})
    index_of = {s.strip(): i for i, s in enumerate(stmts)}
    lost = {"fired": False, "seq": None}

    def reply_hook(fw_, idx, cmd):
        i = index_of.get(cmd)
        if i is None:
            return None
        return replies.get(str(i))
    fw.reply_hook = reply_hook
    slow = scn.get("slow") or {}
    fw.lat_hook = lambda idx, text: float(slow.get(str(index_of.get(text.strip(), -1)), 0.0))

    by_rx = {}
    for f in scn.get("faults", []):
        by_rx.setdefault((f.get("phase", "rx") if f["k"] == "loss" else "rx", f["rx"]), []).append(f)

    def do_loss(mode):
        port = env.get("port")
        if port is None or lost["fired"]:
            return
        lost["fired"] = True
        lost["seq"] = k.ev("LOSS", mode)
        fw.kill()
        if mode == "serial-exc":
            port.break_link()
        elif mode == "eof":
            port.peer_close()
        elif mode == "reset":
            port.peer_reset()
        elif mode == "wfail":
            port.write_fail()
            port.peer_close()

    def fire(f):
        if f["k"] == "unsol":
            fw.unsolicited(f["text"])
        elif f["k"] == "burst":
            if f.get("head"):
                fw.unsolicited(f["head"])
            for j in range(int(f["n"])):
                k.after((j + 1) * 0.002, fw.unsolicited, f["text"])
            k.probe("fault.report_burst")
        elif f["k"] == "loss":
            do_loss(f["mode"])

    def rx_hook(fw_, idx, text):
        for f in by_rx.get(("rx", idx), []):
            k.after(f["dt"], fire, f)
    fw.rx_hook = rx_hook

    def processed_hook(fw_, idx):
        for f in by_rx.get(("processed", idx), []):
            k.after(f["dt"], fire, f)
    fw.processed_hook = processed_hook

    hist = []   # (kind, i, seq, extra)
    state = {"w": None, "done": False, "stopped_after_loss": False}

    def mk_writer():
        if scn["transport"] == "socket":
            host, port = scn.get("host", "10.0.0.5"), int(scn.get("tcp_port", 8080))
            if scn["via"] == "delegate":
                from gscrib.writers.socket_writer import SocketWriter
                return SocketWriter(host, port)
            return m["pw"].PrintrunWriter("socket", host, str(port), 0)
        if scn["via"] == "delegate":
            from gscrib.writers.serial_writer import SerialWriter
            return SerialWriter("/dev/sim", 115200)
        return m["pw"].PrintrunWriter("serial", "localhost", "/dev/sim", 115200)

    def settle_time():
        d = scn.get("draws", {})
        return 2.0 + sum((d.get("lat") or [0])[:10]) + sum((d.get("gap") or [0])[:32]) + 4.0

    PW = m["pw"].PrintrunWriter
    orig_connect = PW.__dict__["connect"]

    def traced_connect(self_):
        state["in_connect"] = True
        k.ev("connect-enter")
        r = orig_connect(self_)
        state["in_connect"] = False
        k.ev("connect-exit")
        return r
    orig_msg = PW.__dict__["_on_device_message"]
    hostmsgs = []   # (seq, text) every device line handed to the writer, in processing order

    def traced_msg(self_, message):
        rec = [k.ev("host-msg", message.strip()[:60]), message.strip(), None]
        hostmsgs.append(rec)
        try:
            return orig_msg(self_, message)
        finally:
            rec[2] = k.seq   # processing finished (no new event: observation only)
    orig_err = PW.__dict__["_on_printrun_error"]
    hosterrs = []

    def traced_err(self_, message):
        rec = [k.ev("host-err", str(message).strip()[:80]), str(message), None]
        hosterrs.append(rec)
        try:
            return orig_err(self_, message)
        finally:
            rec[2] = k.seq
    state["in_connect"] = False

    def restore():
        PW.connect = orig_connect
        PW._on_device_message = orig_msg
        PW._on_printrun_error = orig_err
    state["restore"] = restore
    PW.connect = traced_connect
    PW._on_device_message = traced_msg
    PW._on_printrun_error = traced_err

    def handover_race(e):
        # printcore._start_sender publishes the Thread object before starting it; a disconnect()
        # that runs in between fails in _stop_sender -> join() (unchanged-tree race outside C16)
        # (RuntimeError), or reads print_thread a second time after the print thread cleared it
        # (AttributeError on None.join)
        return ((isinstance(e, RuntimeError) and "before it is started" in str(e))
                or (isinstance(e, AttributeError) and "'NoneType' object has no attribute 'join'" in str(e)))

    def main():
        w = state["w"] = mk_writer()
        eol = scn.get("eol", "\n")
        for op in scn["ops"]:
            if state["stopped_after_loss"] and op[0] in ("write", "connect", "settle"):
                continue
            if state.get("handover") and op[0] in ("disconnect", "connect_timeout", "idle_error"):
                continue
            if op[0] == "connect":
                s0 = k.ev("connect-call")
                hist.append(("connect-call", None, s0, None))
                t_c = k.now
                try:
                    if scn.get("ctx"):
                        w.__enter__()              # `with writer:` form
                    else:
                        w.connect()
                    hist.append(("connect-ret", None, k.ev("connect-ret"), None))
                except SimAbort:
                    raise
                except BaseException as e:
                    tmo = getattr(getattr(w, "_writer_delegate", w), "_timeout", 30.0)
                    if "timed out" in str(e).lower() and k.now - t_c >= 0.99 * float(tmo):
                        # the device really took longer than the writer's time-out to come on-line
                        # (slow port, lost probe): connect() is entitled to give up; nothing to judge
                        k.ev("connect-timeout-legit", round(k.now - t_c, 3))
                        k.probe("obs.connect_timed_out")
                        state["stopped_after_loss"] = True
                        state["connect_timed_out"] = True
                    else:
                        hist.append(("connect-raise", None, k.ev("connect-raise", type(e).__name__, str(e)[:80]),
                                     type(e).__name__))
                    if lost["fired"]:
                        state["stopped_after_loss"] = True
            elif op[0] == "connect_timeout":
                # the first connection attempt times out (device still booting); the caller retries
                w.set_timeout(op[1])
                hist.append(("connect-call", None, k.ev("connect-attempt"), None))   # a session of its own
                try:
                    w.connect()
                    k.ev("connect-timeout-attempt", "connected")
                    try:
                        # not the situation this operation is after: let the start-up threads
                        # finish (a disconnect racing them fails in several ways on the unchanged
                        # tree, none of which C16 speaks about) and end the session normally
                        common.quiesce(k, env)
                        w.disconnect(False)
                    except SimAbort:
                        raise
                    except BaseException as e2:
                        if handover_race(e2):
                            # the attempt connected after all and the immediate disconnect met the
                            # start-up print thread handing over to a send thread that is assigned
                            # but not started: the writer is left half-disconnected, nothing after
                            # this belongs to a session C16 speaks about
                            k.ev("disc-handover-race")
                            k.probe("obs.thread_handover_race")
                            state["stopped_after_loss"] = state["handover"] = True
                        else:
                            # whatever else this harness-made disconnect met: the attempt is not a
                            # judged session, and a writer left in an unknown state is not one either
                            k.ev("connect-attempt-disc-raise", type(e2).__name__, str(e2)[:80])
                            k.probe("obs.attempt_disconnect_raised")
                            state["stopped_after_loss"] = state["handover"] = True
                except SimAbort:
                    raise
                except BaseException as e:
                    k.ev("connect-timeout-attempt", type(e).__name__)
                    k.probe("c16.connect_timed_out_then_retried")
                hist.append(("disc-call", None, k.ev("connect-attempt-over"), None))
                w.set_timeout(30.0)
            elif op[0] == "signal_other":
                # another writer object of the same process handled SIGINT earlier
                other = mk_writer()
                getattr(other, "_writer_delegate", other)._on_shutdown_signal(2, None)
                k.ev("signal-to-other-writer")
                k.probe("c16.signal_delivered_to_other_writer")
            elif op[0] == "timeout":
                w.set_timeout(op[1])
                k.ev("set-timeout", op[1])
            elif op[0] == "idle_error":
                # an error/alarm line pushed by the device while the host is idle
                common.quiesce(k, env)
                n0 = len(hostmsgs)
                fw.unsolicited(op[1])
                common.quiesce(k, env)
                if any(t == op[1].strip() for (_, t, _) in hostmsgs[n0:]):
                    hist.append(("idle-error", None, k.ev("idle-error", op[1]), op[1]))
                else:
                    k.ev("idle-error-not-delivered", op[1])
            elif op[0] == "settle":
                common.quiesce(k, env)
                k.ev("settled")
            elif op[0] == "write":
                i = op[1]
                data = (stmts[i] + eol).encode("utf-8")
                hist.append(("call", i, k.ev("call", i), None))
                try:
                    w.write(data)
                    hist.append(("ret", i, k.ev("ret", i), None))
                    if observer is not None:
                        observer.after_write(i, w, k)
                    if i % 3 == 0:
                        # status properties a caller may poll; they must not disturb anything
                        pw_ = getattr(w, "_writer_delegate", w)
                        _ = (w.is_connected, w.is_printing, pw_.has_pending_operations)
                except SimAbort:
                    raise
                except BaseException as e:
                    hist.append(("raise", i, k.ev("raise", i, type(e).__name__, str(e)[:80]), e))
                    if lost["fired"]:
                        state["stopped_after_loss"] = True
            elif op[0] == "disconnect":
                hist.append(("disc-call", None, k.ev("disc-call"), None))
                try:
                    if scn.get("ctx") and op[1]:
                        w.__exit__(None, None, None)
                    else:
                        w.disconnect(op[1])
                    hist.append(("disc-ret", None, k.ev("disc-ret"), None))
                except SimAbort:
                    raise
                except BaseException as e:
                    if handover_race(e):
                        k.ev("disc-handover-race")
                        k.probe("obs.thread_handover_race")
                        state["stopped_after_loss"] = state["handover"] = True
                    else:
                        hist.append(("disc-raise", None, k.ev("disc-raise", type(e).__name__, str(e)[:80]), e))
        state["done"] = True
        # tear-down that is not part of the judged history (a minimised scenario may have
        # lost its disconnect operation)
        if getattr(getattr(w, "_writer_delegate", w), "_device", None) is not None:
            k.ev("cleanup-disconnect")
            try:
                getattr(w, "_writer_delegate", w).disconnect(False)
            except SimAbort:
                raise
            except BaseException:
                pass

    try:
        k.run(main)
    finally:
        state["restore"]()
    w = state["w"]
    state["link_tx"] = env["link"].tx
    pwi = getattr(w, "_writer_delegate", w)
    ackev = getattr(pwi, "_ack_event", None)
    if ackev is None or not hasattr(ackev, "hist"):
        raise shims.HarnessError("seam moved: PrintrunWriter._ack_event")
    viol = check(scn, k, fw, hist, state, lost, DeviceError, hostmsgs, ackev.hist, relaxed=False)
    if getattr(k, "unsettled", False) and not any(v["cls"] == "harness" for v in viol):
        # the quiet period the clean lane is defined by could not be established (extreme stall
        # profile): nothing can be concluded from this run
        k.probe("obs.unsettled_run_skipped")
        viol = []
        observer = None
    findings = []
    if viol and scn.get("sub") == "d3":
        # finding lane: does the history show D3's mechanism, and does the reference model of
        # "intended behaviour with exactly that defect" explain the whole run?
        relaxed = check(scn, k, fw, hist, state, lost, DeviceError, hostmsgs, ackev.hist, relaxed=True)
        if state.get("strays"):
            k.probe("finding.D3.attributed" if not relaxed else "finding.D3.mechanism_but_unexplained")
            if not relaxed:
                findings.append("D3")
            viol = relaxed
    extra = {"completed_writes": sum(1 for h in hist if h[0] in ("ret", "raise")),
             "findings": findings}
    if observer is not None:
        viol = viol + observer.check(scn, k, fw, hist)
        extra.update(observer.extra())
    if keep:
        extra.update({"log": k.log, "fw": fw, "hist": hist})
    return common.finish(k, scn, viol, extra)


def check(scn, k, fw, hist, state, lost, DeviceError, hostmsgs, ackhist, relaxed=False):
    """Oracle over the recorded history (DESIGN.md section 5, C16 (a)-(e)).

    Strict everywhere, except that in the finding lane a run whose history shows the
    mechanism of known finding D3 (handshake acknowledgements still unprocessed when the
    first write() cleared the acknowledgement event) is judged by the reference model of
    "intended behaviour with exactly that defect" instead.
    """
    viol = []
    stmts = [s.strip() for s in scn["stmts"]]
    replies = scn.get("replies", {})
    loss = lost["fired"]

    def V(cls, **kw):
        viol.append({"cls": cls, "detail": kw})

    def is_err(text):
        return text.lower().startswith(("error", "alarm", "!!"))

    def is_ack(text):
        return text.lower().startswith("ok")

    calls = []       # dict(i, call, out, kind, exc)
    for h in hist:
        if h[0] == "call":
            calls.append({"i": h[1], "call": h[2], "out": None, "kind": None, "exc": None})
        elif h[0] in ("ret", "raise"):
            c = calls[-1]
            c["out"], c["kind"], c["exc"] = h[2], h[0], h[3]
    called_idx = [c["i"] for c in calls]

    # ---- (a) delivery: statement lines received = called statements, in order, once, unmodified
    rx_of = {}
    order = []
    for rx in fw.rx:
        text = rx["text"].rstrip("\r\n")
        if is_handshake(text):
            continue
        if text not in stmts:
            V("delivery-modified", rx=text[:60])
            continue
        i = stmts.index(text)
        if i in rx_of:
            V("delivery-duplicate", stmt=i)
            continue
        rx_of[i] = rx
        order.append(i)
        if i not in called_idx:
            V("delivery-uncalled", stmt=i)
    if order != [i for i in called_idx if i in rx_of]:
        V("delivery-order", order=order)

    # device-side acknowledgement of each received line (first ok/error line answering it)
    ack_of_rx, err_of_rx = {}, {}
    for e in fw.emitted:
        if e["answers"] is not None and (e["ack"] or e["err"]):
            ack_of_rx.setdefault(e["answers"], e)
            if e["err"]:
                err_of_rx.setdefault(e["answers"], e)

    # host-side processing order is FIFO: hostmsgs[j] is emitted[j]
    # when did the host act on each device line?  The reader handles one line at a time, so
    # the first set() of the acknowledgement event after a line's hand-over (and before the
    # next line's) is the one that line caused.
    sets = [s_ for (op, s_) in ackhist if op == "set"]
    acted = []       # per host message: seq of the set() it caused, or None
    for j, (hs, t, hd) in enumerate(hostmsgs):
        nxt_start = hostmsgs[j + 1][0] if j + 1 < len(hostmsgs) else float("inf")
        cand = [s_ for s_ in sets if hs < s_ < nxt_start]
        acted.append(cand[0] if cand and (is_ack(t) or is_err(t)) else None)
    host_done = {}   # emission seq -> seq at which the host acted on that line
    # printcore hands a line to the writer only if it is longer than one character (a bare
    # newline is not forwarded)
    forwarded = [e for e in fw.emitted if not e["dropped"] and len(e["text"] + fw.eol) > 1]
    for j, e in enumerate(forwarded):
        if j < len(hostmsgs):
            if hostmsgs[j][1] != e["text"].strip():
                # lines delivered around a disconnect may legitimately never be read; the
                # FIFO mapping (only needed for the D3 analysis) simply stops here
                if not relaxed:
                    k.probe("obs.host_stream_gap")
                break
            if acted[j] is not None:
                host_done[e["seq"]] = acted[j]

    # ---- an error/alarm line the host processed while idle is raised by the next write()
    for h in hist:
        if h[0] != "idle-error":
            continue
        nxt = [c for c in calls if c["call"] > h[2] and c["out"] is not None]
        # only within the same session: connect() starts with a clean error slate
        if nxt and any(x[0] in ("disc-call", "connect-call") and h[2] < x[2] < nxt[0]["call"] for x in hist):
            continue
        if nxt and not (nxt[0]["kind"] == "raise" and isinstance(nxt[0]["exc"], DeviceError)):
            V("idle-error-swallowed", stmt=nxt[0]["i"], line=h[3])
        elif nxt:
            k.probe("c16.idle_error_raised_by_next_write")

    # ---- D3 mechanism: handshake acknowledgements not yet processed at the first clear()
    strays = 0
    if relaxed and calls:
        clears = [s_ for (op, s_) in ackhist if op == "clear" and s_ > calls[0]["call"]]
        if clears:
            c0 = clears[0]
            for e in fw.emitted:
                if e["answers"] is None or not (e["ack"] or e["err"]):
                    continue
                if not is_handshake(fw.rx[e["answers"]]["text"]):
                    continue
                hd = host_done.get(e["seq"])
                if hd is None or hd > c0:
                    strays += 1
    if relaxed:
        state["strays"] = strays

    if not relaxed:
        tx_seq = {}
        for t in state.get("link_tx", []):
            tx_seq.setdefault(t["text"].rstrip("\r\n"), t["seq"])
        for c in calls:
            cl = [s_ for (op, s_) in ackhist if op == "clear" and s_ > c["call"]]
            ts = tx_seq.get(stmts[c["i"]])
            if cl and ts and any(a_ is not None and cl[0] < a_ < ts for a_ in acted):
                k.probe("c16.ack_processed_between_clear_and_send")
            if cl and c["out"] and any(a_ is not None and c["call"] < a_ < cl[0] for a_ in acted):
                k.probe("c16.ack_processed_between_call_and_clear")
    for c in calls:
        i = c["i"]
        if c["kind"] is None:
            continue   # never completed (abort / deadlock): judged by the liveness clause
        rx = rx_of.get(i)
        a = ack_of_rx.get(rx["idx"]) if rx is not None else None
        e = err_of_rx.get(rx["idx"]) if rx is not None else None
        if c["kind"] == "ret":
            if rx is None and not strays:
                V("return-undelivered", stmt=i)
                continue
            if strays:
                # defect model: the write waited for >=1 genuine acknowledgement processed
                # after its own clear()
                cl = [s_ for (op, s_) in ackhist if op == "clear" and c["call"] < s_ < c["out"]]
                ok = bool(cl) and any(a_ is not None and cl[0] < a_ < c["out"] for a_ in acted)
                if not ok:
                    V("return-without-wait", stmt=i)
            else:
                # (b) synchrony
                if a is None or a["seq"] > c["out"]:
                    V("early-return", stmt=i, ack_seq=a and a["seq"], ret_seq=c["out"])
                # (c) errors surface
                if e is not None:
                    V("error-swallowed", stmt=i, reply=e["text"])
        else:
            if e is not None and not isinstance(c["exc"], DeviceError):
                V("error-wrong-type", stmt=i, exc=type(c["exc"]).__name__)
    if strays:
        # every error line the host processed must be raised by the first write that
        # completes afterwards (if any)
        for (hs, t, hd), a_ in zip(hostmsgs, acted):
            if not is_err(t) or a_ is None:
                continue
            # The error is stored somewhere between the hand-over of the line (hs) and the set()
            # it causes (a_).  It is raised by the first error check that runs after the store:
            # a write that was in progress at that time (completing after hs) or else the first
            # write that starts after a_.
            def raised(c):
                return c["kind"] == "raise" and isinstance(c["exc"], DeviceError)
            done = [c for c in calls if c["out"] is not None]
            early = [c for c in done if c["out"] > hs and c["call"] < a_]
            nxt = [c for c in done if c["call"] > a_]
            if not (any(raised(c) for c in early) or not nxt or raised(nxt[0])):
                V("error-swallowed", stmt=nxt[0]["i"], reply=t[:40])

    if not loss:
        # ---- (d) disconnect(wait=True): everything invoked was received and answered
        upto = []
        never_sent = {c["i"] for c in calls if c["kind"] == "raise" and c["i"] not in rx_of
                      and type(c["exc"]).__name__ in ("DeviceConnectionError", "DeviceTimeoutError")}
        for h in hist:
            if h[0] == "call":
                # a write() whose implicit connect() failed never queued its statement
                if h[1] not in never_sent:
                    upto.append(h[1])
            elif h[0] == "disc-ret":
                missing = []
                for i in upto:
                    rx = rx_of.get(i)
                    a = ack_of_rx.get(rx["idx"]) if rx is not None else None
                    if rx is None or a is None or a["seq"] > h[2]:
                        missing.append(i)
                if missing and not (strays and len(missing) <= strays
                                    and missing == upto[-len(missing):]):
                    V("disconnect-unacked", stmts=missing, disc_seq=h[2])
                upto = []
            elif h[0] == "connect-raise":
                V("unexpected-exception", where=h[0], exc=str(h[3])[:80])
            elif h[0] == "disc-raise":
                if not (strays and isinstance(h[3], DeviceError)):
                    V("unexpected-exception", where=h[0], exc=str(h[3])[:80])
        # ---- bounded liveness (no connection loss): the scenario must complete
        if k.abort_reason in ("wall-timeout",) or (k.abort_reason or "").startswith("tripwire"):
            V("harness", reason=k.abort_reason)
        elif k.abort_reason and state["in_connect"]:
            # a connect() that never completes is outside what C16 states (DESIGN.md 6)
            if not relaxed:
                k.probe("obs.connect_hang:" + k.abort_reason)
        elif k.abort_reason and state["done"]:
            # every operation of the caller completed; a thread that outlives the session (e.g. a
            # send thread restarted by a start-up print thread that disconnect() did not wait
            # for) is not part of any clause of C16
            if not relaxed:
                k.probe("obs.thread_outlives_session:" + k.abort_reason)
        elif k.abort_reason:
            V("liveness", reason=k.abort_reason)
        elif not state["done"]:
            V("liveness", reason="main-incomplete")
        for t in k.threads:
            if t.exc is not None and not isinstance(t.exc, SimAbort):
                V("thread-died", thread=t.name, exc="%s: %s" % (type(t.exc).__name__, str(t.exc)[:80]))
    else:
        # ---- (e) under connection loss only safety is demanded (checked above)
        if k.abort_reason in ("wall-timeout",) or (k.abort_reason or "").startswith("tripwire"):
            V("harness", reason=k.abort_reason)
        elif k.abort_reason and not relaxed:
            k.probe("obs.hang_after_loss:" + k.abort_reason)
    return viol


# ----------------------------------------------------------------- lane adapter
from sim.runner import Lane  # noqa: E402


class C16Lane(Lane):
    prop = "C16"
    level = "exploration"
    technique = ("deterministic simulation: real PrintrunWriter/printcore/Device threads under a seeded "
                 "baton scheduler with virtual time, simulated firmware peer, fault injection "
                 "(latency, unsolicited lines, error replies, connection loss, short reads, stalls); "
                 "history oracle on global event sequence numbers")
    rule = ("one evaluation = one simulated connect/write*/disconnect session generated from (VERIF_SEED, "
            "run index, sub-lane); non-trivial = at least one write() completed; distinct = distinct "
            "SHA-256 digest of the complete event log (operations, device traffic, thread events) "
            "among non-trivial runs")
    assumptions = (
        "firmware model: sequential, one reply block per received line, exactly one ok/error line per statement",
        "links are FIFO and lossless except for the injected connection-loss faults",
        "pre-emption granularity is one source line of printcore.py/device.py/printrun_writer.py",
        "a connect() that never returns is outside C16 and only counted (obs.connect_hang)",
        "under connection loss only safety is checked (no normal return without acknowledgement)",
    )
    real_vs_stub = {
        "real": ["gscrib.writers.printrun_writer.PrintrunWriter", "SerialWriter", "SocketWriter",
                 "gscrib.printrun.printcore (read/send/print threads)", "gscrib.printrun.device.Device",
                 "gscrib.printrun.gcoder.GCode"],
        "stub": ["serial.Serial", "socket/makefile/selector", "threading.Thread/Event/Lock", "queue.Queue",
                 "time", "signal.signal", "platform.system", "firmware peer"],
    }

    # unchanged tree: D3 is attributed in 33-40 % of D3-lane runs
    RATE_GUARDS = {("d3", "findings", "D3"): (0.65, 10)}

    def subs(self, tier):
        return [("clean", 1400), ("d3", 700)] if tier == "quick" else [("clean", 70000), ("d3", 20000)]

    def gen(self, seed, run, sub, tier):
        return gen(seed, run, sub, tier)

    def execute(self, scn, guide=None):
        obs = None
        if scn.get("readings") and scn.get("sub") == "clean":
            from lanes.readings import Observer
            obs = Observer(scn)
        return execute(scn, guide, observer=obs)

    def nontrivial(self, scn, res):
        return res.get("completed_writes", 0) >= 1

    def valid(self, scn):
        # clean lane = explicit connect() and a quiet period before the first write()
        if scn.get("sub") != "clean":
            return True
        ready = False
        prev = None
        for op in scn["ops"]:
            if op[0] == "connect":
                ready = False
            elif op[0] == "settle":
                ready = prev == "connect"
            elif op[0] == "disconnect":
                ready = False
            elif op[0] in ("signal_other", "connect_timeout"):
                continue
            elif op[0] in ("write", "idle_error", "timeout") and not ready:
                return False
            prev = op[0]
        return True

    def sample(self, scn, res):
        return {"sub": scn["sub"], "transport": scn["transport"], "ops": scn["ops"],
                "stmts": scn["stmts"][:4], "replies": scn["replies"], "faults": scn["faults"][:3],
                "sched": scn["sched"], "outcome": res["stats"], "violations": res["viol"][:2]}


LANE = C16Lane()
