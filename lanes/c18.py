"""C18 - device reports are parsed into the readings the caller asks for.

Sub-lane "pipe": reports are messages of the simulated peer; they reach
PrintrunWriter._on_device_message through the real transport, line assembly and read
thread, in between (or on the same line as) acknowledgements, while the caller thread
calls get_parameter after each write() (C16 clean-lane machinery).
Sub-lane "direct": lines are fed to the public receive callback on one thread (the
property's own observe_at).

Reports are generated *from structure*: the oracle knows the intended readings by
construction, no second parser is involved.
"""
from lanes import c16, common
from sim import shims
from sim.kernel import SimAbort
from sim.runner import Lane

from lanes.readings import ALPHABET, Observer, _same, apply_report, snapshot  # noqa: F401


def num(r):
    """A signed decimal in one of the spellings firmwares (and the property) allow."""
    u = r.random()
    mag = r.choice([0, 1, 9.5, 20, 99.999, 123.456, 1000, 65535.25, 123456.789012])
    v = r.uniform(0, mag) if mag else 0.0
    digits = r.choice([0, 1, 2, 3, 4, 6])
    s = "%.*f" % (digits, v)
    if u < 0.08:
        s = s.split(".")[0] + "."            # "12."
    elif u < 0.16 and s.startswith("0."):
        s = s[1:]                              # ".5"
    elif u < 0.2:
        s = "0" * r.randrange(1, 3) + s        # leading zeros
    if r.random() < 0.03:
        s = "%d.%s" % (r.randrange(10 ** 9), "".join(r.choice("0123456789") for _ in range(12)))   # > 15 significant digits
    if r.random() < 0.4:
        s = "-" + s
    return s


def m114(r):
    axes = ["X", "Y", "Z", "E"]
    if r.random() < 0.3:
        r.shuffle(axes)
    if r.random() < 0.2:
        axes.insert(r.randrange(len(axes) + 1), r.choice("ABC"))
    vals = {a: num(r) for a in axes}
    text = " ".join("%s:%s" % (a, vals[a]) for a in axes)
    cnt = [a for a in axes if a != "E"]
    if r.random() < 0.85:
        if r.random() < 0.3:
            # CoreXY / delta firmwares report stepper counts under other letters (A, B, C)
            cnt = r.choice([["A", "B", "Z"], ["A", "B", "C"], ["X", "Y", "Z", "A"]])
        cvals = {a: (("-" if r.random() < 0.3 else "") + (num(r).split(".")[0].replace("-", "") or "0")) for a in cnt}
        text += " Count " + " ".join("%s:%s" % (a, cvals[a]) for a in cnt)
        for a in cnt:
            vals.setdefault(a, cvals[a])     # a letter first mentioned after 'Count' is still a reported letter
    return text, vals


def m105(r):
    vals = {"T": num(r)}
    text = "T:%s /%s" % (vals["T"], num(r).lstrip("-"))
    if r.random() < 0.8:
        vals["B"] = num(r)
        text += " B:%s /%s" % (vals["B"], num(r).lstrip("-"))
    if r.random() < 0.3:
        text += " T0:%s /%s T1:%s /%s" % (num(r), num(r).lstrip("-"), num(r), num(r).lstrip("-"))
    if r.random() < 0.7:
        text += " @:%d B@:%d" % (r.randrange(128), r.randrange(128))
    if r.random() < 0.1:
        # many hot ends: the line grows beyond 256 characters before its last fields
        for j in range(8):
            text += " T%d:%s /%s" % (j, num(r), num(r).lstrip("-"))
        text += " " + " ".join("@%d:%d" % (j, r.randrange(128)) for j in range(8))
    if r.random() < 0.15:
        vals["W"] = str(r.randrange(10))
        text += " W:%s" % vals["W"]
    return text, vals


def grbl_status(r):
    pos = r.choice(["MPos", "MPos", "WPos"])
    naxes = r.choice([3, 3, 3, 4, 6])
    coords = [num(r) for _ in range(naxes)]
    vals = dict(zip("XYZABC", coords))
    fields = ["%s:%s" % (pos, ",".join(coords))]
    u = r.random()
    if u < 0.6:
        f, s_ = num(r).lstrip("-"), num(r).lstrip("-").split(".")[0] or "0"
        fields.append("FS:%s,%s" % (f, s_))
        vals["F"], vals["S"] = f, s_
    elif u < 0.8:
        f = num(r).lstrip("-")
        fields.append("F:%s" % f)
        vals["F"] = f
    extras = ["Bf:%d,%d" % (r.randrange(16), r.randrange(255)), "Ov:100,100,100",
              "WCO:%s,%s,%s" % (num(r), num(r), num(r)), "Ln:%d" % r.randrange(99999), "Pn:XYZ", "A:SFM"]
    r.shuffle(extras)
    if r.random() < 0.1:
        # a long status: everything the firmware can report, the feed/speed field last
        big = ["Bf:%d,%d" % (r.randrange(16), r.randrange(255)), "Ln:%d" % r.randrange(99999), "Ov:100,100,100",
               "WCO:%s" % ",".join("%d.%06d" % (r.randrange(10 ** 6), r.randrange(10 ** 6)) for _ in range(6)),
               "Pn:XYZPDHRS", "A:SFM", "Pr:%s" % ",".join("%d.%06d" % (r.randrange(10 ** 6), r.randrange(10 ** 6)) for _ in range(6))]
        head, tail = fields[:1], fields[1:]
        fields = head + big + tail
    else:
        fields += extras[:r.randrange(0, 4)]
    state = r.choice(["Idle", "Run", "Hold:0", "Jog", "Alarm", "Door:1", "Home"])
    return "<%s|%s>" % (state, "|".join(fields)), vals


def prb(r):
    coords = [num(r) for _ in range(3)]
    return "[PRB:%s:%d]" % (",".join(coords), r.choice([0, 1])), dict(zip("XYZ", coords))


FAMILIES = [("M114", m114), ("M105", m105), ("?", grbl_status), ("G38.2 Z-10 F50", prb)]


def gen_report(r, allow_ok=True):
    cmd, fn = r.choice(FAMILIES)
    text, vals = fn(r)
    fused = False
    if fn is m105 and allow_ok and r.random() < 0.5:
        text = "ok " + text                   # Marlin's real M105 reply: acknowledgement and report in one
        fused = True
    return cmd, text, {kk: float(v) for kk, v in vals.items()}, fused


def gen(seed, run, sub="pipe", tier="quick"):
    r = common.rng_for(seed, run, "c18/" + sub)
    if sub == "direct":
        n = r.choice([1, 2, 5, 12, 30])
        lines, readings = [], {}
        # sometimes draw from a small pool so that identical report lines recur (an idle machine
        # reports the same values again), interleaved with other reports of the same family
        pool = [gen_report(r) for _ in range(r.choice([2, 3, 4]))] if r.random() < 0.35 else None
        if pool is not None and r.random() < 0.7:
            _, t0, v0, f0 = pool[0]
            if t0.startswith("T:"):            # the same temperatures once more on an ack line
                pool.append(("M105", "ok " + t0, v0, True))
        for _ in range(n):
            u = r.random()
            if u < 0.75:
                _, text, vals, _f = r.choice(pool) if pool is not None else gen_report(r)
                if r.random() < 0.1:
                    text = " " + text + " "
                lines.append(text)
                readings[text.strip()] = vals
            else:
                lines.append(r.choice(["ok", "echo:busy: processing", "wait", "start", "[MSG:Pgm End]",
                                       "error:20", "ok N12 P15 B3", "Grbl 1.1h ['$' for help]"]))
        return {"lane": "c18", "sub": sub, "reports": lines, "readings": readings, "draws": {}, "cfg": {},
                "sched": {"seed": "%s/%s/c18d" % (seed, run), "policy": "random", "p": 0.0, "pp": 0.0}}
    if sub == "duo":
        # two writer objects alive at the same time, each fed by its own reader thread
        out = {"lane": "c18", "sub": sub, "draws": {}, "cfg": {}, "readings": {}, "max_steps": 200000}
        for name in ("reportsA", "reportsB"):
            lines = []
            for _ in range(r.choice([3, 8, 20])):
                _, text, vals, _f = gen_report(r)
                lines.append(text)
                out["readings"][text.strip()] = vals
            out[name] = lines
        out["sched"] = common.gen_sched(r, "%s/%s/c18duo" % (seed, run), est_steps=3000, victims=("A", "B"))
        return out
    # pipe: a C16 clean-lane session whose statements are queries answered by generated reports
    n = r.choice([1, 2, 3, 4, 6, 10])
    transport = r.choice(["serial", "serial", "socket"])
    stmts, replies, readings = [], {}, {}
    pool = [gen_report(r) for _ in range(r.choice([2, 3]))] if r.random() < 0.3 else None
    for i in range(n):
        if r.random() < 0.75:
            cmd, text, vals, fused = r.choice(pool) if pool is not None else gen_report(r)
            stmts.append("%s ; q%d" % (cmd, i))
            readings[text] = vals
            rep = [text] if fused else [text, "ok"]
            if not fused and r.random() < 0.2:      # a second report before the acknowledgement
                _, t2, v2, _f = gen_report(r, allow_ok=False)
                readings[t2] = v2
                rep = [text, t2, "ok"]
            replies[str(i)] = rep
        else:
            stmts.append("G1 X%d F%d" % (i, 100 + i))
    faults = []
    slow = {}
    for _ in range(r.choice([0, 0, 1, 2, 4])):
        _, text, vals, _f = gen_report(r, allow_ok=False)
        if pool is not None and r.random() < 0.6:
            cand = [x for x in pool if not x[3]]
            if cand:
                _, text, vals, _f = r.choice(cand)
        readings[text] = vals
        faults.append({"k": "unsol", "rx": r.randrange(0, n + 4), "dt": round(r.choice([0, 0.001, 0.05, 0.3]), 6),
                       "text": text})
    if n >= 2 and r.random() < 0.03:
        # temperature auto-reports for minutes on end between two statements
        _, bt, bv, _f = gen_report(r, allow_ok=False)
        _, ht, hv, _f = gen_report(r, allow_ok=False)       # one report of another kind leads the burst
        readings[bt] = bv
        readings[ht] = hv
        j = r.randrange(0, n - 1)
        nb = r.choice([260, 300, 520])
        # the whole burst arrives while statement j is still being executed by the device
        faults.append({"k": "burst", "rx": 3 + j, "dt": 0.01, "text": bt, "head": ht, "n": nb})
        slow[str(j)] = round(nb * 0.002 + 1.0, 3)
    draws = common.gen_draws(r)
    if transport == "socket":
        fr = r.choice([0, 1, 3, 7, 64])
        draws["cut"] = [r.choice([fr, fr, 0.5, 0]) for _ in range(24)] if fr else []
        if r.random() < 0.4:      # reply lines travelling in two segments, sometimes > read time-out apart
            draws["seg"] = [r.choice([0, 0, 0.3, 0.5, 0.9]) for _ in range(16)]
            draws["seggap"] = [r.choice([0.0, 0.001, 0.1, 0.3, 0.6]) for _ in range(8)]
    ops = [["connect"], ["settle"]]
    half = r.randrange(1, n) if (n >= 2 and r.random() < 0.2) else None
    for i in range(n):
        if half is not None and i == half:
            # readings survive a disconnect/connect cycle of the same writer object
            ops += [["disconnect", True], ["connect"], ["settle"]]
        ops.append(["write", i])
    ops.append(["disconnect", True])
    sched = common.gen_sched(r, "%s/%s/c18" % (seed, run), est_steps=300 + 250 * n)
    if any(f["k"] == "burst" for f in faults):
        sched["stall_max"] = min(sched["stall_max"], 0.15)      # hundreds of lines to read: keep the reader moving
        draws.pop("seg", None)                                   # ... and the lines arriving (no segment gaps)
        draws.pop("seggap", None)
    return {
        "lane": "c18", "sub": sub, "transport": transport, "via": r.choice(["delegate", "bare"]),
        "cfg": {"greeting": r.choice(["start", "", "start\necho:Marlin 2.1.2"]), "boot": r.choice([0.0, 0.05]),
                "drop_while_booting": False, "resend_with_ok": True,
                "dev_eol": r.choice(["\n", "\n", "\r\n"])},
        "stmts": stmts, "replies": replies, "faults": faults, "ops": ops, "draws": draws, "eol": "\n",
        "readings": readings, "max_steps": 300000, "slow": slow,
        "sched": sched,
    }


def execute(scn, guide=None, keep=False):
    if scn["sub"] == "pipe":
        s2 = dict(scn, sub="clean")
        res = c16.execute(s2, guide, keep, observer=Observer(scn))
        return res
    if scn["sub"] == "duo":
        return execute_duo(scn, guide, keep)
    return execute_direct(scn, guide, keep)


def execute_duo(scn, guide, keep):
    k, env = common.build(scn, guide)
    m = shims.repo_modules()
    viol = []
    done = {"A": False, "B": False}

    def feeder(tag, lines):
        def run():
            w = m["pw"].PrintrunWriter("serial", "localhost", "/dev/sim" + tag, 115200)
            ref = {L: None for L in ALPHABET}
            for idx, line in enumerate(lines):
                w._on_device_message(line)
                ref = apply_report(ref, scn["readings"].get(line.strip()) or {})
                snap = snapshot(w, k)
                k.ev("fed", tag, idx)
                diff = {L: [snap[L], ref[L]] for L in ALPHABET if not _same(snap[L], ref[L])}
                if diff:
                    viol.append({"cls": "reading-mismatch", "detail": {"writer": tag, "line": line, "index": idx,
                                                                       "got_vs_want": diff}})
                    break
            done[tag] = True
        return run

    def main():
        ta = k.Thread(target=feeder("A", scn["reportsA"]), name="A reader")
        tb = k.Thread(target=feeder("B", scn["reportsB"]), name="B reader")
        ta.start()
        tb.start()
        ta.join()
        tb.join()

    k.run(main)
    if k.abort_reason or not all(done.values()):
        if not viol:
            viol.append({"cls": "liveness" if k.abort_reason != "wall-timeout" else "harness",
                         "detail": {"reason": k.abort_reason or "incomplete"}})
    for t in k.threads:
        if t.exc is not None and not isinstance(t.exc, SimAbort):
            viol.append({"cls": "thread-died", "detail": {"exc": "%s: %s" % (type(t.exc).__name__, str(t.exc)[:80])}})
    extra = {"info": {"lines_fed": len(scn["reportsA"]) + len(scn["reportsB"])}}
    if keep:
        extra["log"] = k.log
    return common.finish(k, scn, viol, extra)


def execute_direct(scn, guide, keep):
    k, env = common.build(scn, guide)
    m = shims.repo_modules()
    viol = []
    state = {"done": False, "n": 0}

    def main():
        w = m["pw"].PrintrunWriter("serial", "localhost", "/dev/sim", 115200)
        ref = {L: None for L in ALPHABET}
        for idx, line in enumerate(scn["reports"]):
            w._on_device_message(line)
            vals = scn["readings"].get(line.strip())
            if vals is not None:
                ref = apply_report(ref, vals)
            snap = snapshot(w, k)
            k.ev("fed", idx, line[:50])
            state["n"] += 1
            diff = {L: [snap[L], ref[L]] for L in ALPHABET if not _same(snap[L], ref[L])}
            if diff:
                viol.append({"cls": "reading-mismatch", "detail": {"line": line, "index": idx, "got_vs_want": diff}})
                break
        # case-insensitive access
        for L in "xyzt":
            if not _same(w.get_parameter(L), ref[L.upper()]):
                viol.append({"cls": "reading-case", "detail": {"letter": L}})
        state["done"] = True

    k.run(main)
    if k.abort_reason or not state["done"]:
        viol.append({"cls": "liveness" if k.abort_reason != "wall-timeout" else "harness",
                     "detail": {"reason": k.abort_reason or "main-incomplete"}})
    for t in k.threads:
        if t.exc is not None and not isinstance(t.exc, SimAbort):
            viol.append({"cls": "thread-died", "detail": {"exc": "%s: %s" % (type(t.exc).__name__, str(t.exc)[:80])}})
    extra = {"info": {"lines_fed": state["n"]}}
    if keep:
        extra["log"] = k.log
    return common.finish(k, scn, viol, extra)


class C18Lane(Lane):
    prop = "C18"
    level = "exploration"
    technique = ("deterministic simulation: report lines generated from structure are emitted by the simulated "
                 "firmware through the real transport/read thread between or fused with acknowledgements while "
                 "the caller polls get_parameter after each write(); reference dictionary oracle with an "
                 "in-flight window; plus a single-thread lane through the public receive callback")
    rule = ("one evaluation = one session (pipe) or one report sequence (direct); non-trivial = at least one "
            "report reached the writer; distinct = distinct digest of the event log")
    assumptions = (
        "report families and number spellings as listed in DESIGN.md 5 (C18); no '+' signs or exponents",
        "a leading 'ok' is generated for the temperature family only (as the property states)",
        "reports emitted between a statement's acknowledgement and write()'s return may or may not be absorbed",
    )
    real_vs_stub = {
        "real": ["PrintrunWriter._on_device_message/_parse_message/_update_param/get_parameter",
                 "printcore read thread, Device line assembly (pipe sub-lane)"],
        "stub": ["serial/socket", "threading", "time", "firmware peer (report generator)"],
    }

    def subs(self, tier):
        return ([("pipe", 1200), ("direct", 1500), ("duo", 400)] if tier == "quick"
                else [("pipe", 120000), ("direct", 180000), ("duo", 36000)])

    def gen(self, seed, run, sub, tier):
        return gen(seed, run, sub, tier)

    def execute(self, scn, guide=None):
        return execute(scn, guide)

    def nontrivial(self, scn, res):
        i = res.get("info", {})
        return i.get("snapshots", 0) >= 1 or i.get("lines_fed", 0) >= 1

    def valid(self, scn):
        if scn["sub"] == "pipe":
            return c16.LANE.valid(dict(scn, sub="clean"))
        return True

    def sample(self, scn, res):
        if scn["sub"] == "direct":
            return {"sub": "direct", "reports": scn["reports"][:5], "violations": res["viol"][:2]}
        if scn["sub"] == "duo":
            return {"sub": "duo", "reportsA": scn["reportsA"][:3], "reportsB": scn["reportsB"][:3],
                    "sched": scn["sched"], "violations": res["viol"][:2]}
        return {"sub": "pipe", "stmts": scn["stmts"][:4], "replies": dict(list(scn["replies"].items())[:3]),
                "faults": scn["faults"][:2], "transport": scn["transport"], "sched": scn["sched"],
                "outcome": res["stats"], "violations": res["viol"][:2]}


LANE = C18Lane()
