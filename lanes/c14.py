"""C14 - every writer receives every line, once, in order, byte for byte.

A generated history of add_writer / remove_writer / write-producing builder calls / flush /
teardown / crash-observe over a pool of writers (path-based files, user-opened binary and
text files with randomised buffering, BytesIO/StringIO, console, recording custom writers and
- sub-lane "mixed" - a SerialWriter on the simulated device, which brings in the real
printcore threads).  A permanently registered recording writer R0 is the reference stream.
The "disk" is observed only through independent descriptors, never through a writer's handle.
"""
import io
import os
import shutil
import sys
import tempfile

from lanes import common
from lanes.c16 import is_handshake
from sim import shims
from sim.kernel import SimAbort
from sim.runner import Lane

TEXTS = ["G1 X10 Y20", "M3 S1000", "G0 Z5   ", "\tG4 P1", "T1 M6", "G1 X1.5 Y-2.25 F1200", "M117 hello world",
         "G92 E0", "M400", "G28 X Y"]
UNI = ["line\u2028separator", "para\u2029graph", "nel\x85char", "vt\x0bff\x0cfs\x1cgs\x1drs\x1e", "Ünïcödé ✓", "日本語のコメント", "naïve café", "π≈3.14159", "emoji 🛠 ok", "plain ascii", "tab\tinside", "trailing  "]
PATH_KINDS = ("path", "pathnested", "relpath", "relnested")
KINDS_FILES = ["path", "path", "pathnested", "bin", "bin", "text", "textnl", "bytesio", "stringio", "custom",
               "console", "codecs", "tmptext", "ducktext", "relpath", "relnested"]


def gen(seed, run, sub="files", tier="quick"):
    r = common.rng_for(seed, run, "c14/" + sub)
    nw = r.choice([1, 2, 3, 4, 6, 12])
    writers = []
    for i in range(nw):
        kind = r.choice(KINDS_FILES)
        writers.append({"kind": kind, "buffering": r.choice([0, 1, 7, 64, 512, 4096, 8192, -1]),
                        "name": "w%d" % i})
    serial_at = None
    if sub == "mixed":
        serial_at = r.randrange(len(writers) + 1)
        writers.insert(serial_at, {"kind": "serial", "name": "ser", "transport": r.choice(["serial", "serial", "socket"])})
    ascii_only = sub == "mixed"
    nops = r.choice([3, 6, 12, 25, 60]) if tier == "thorough" else r.choice([3, 6, 12, 25])
    ops = []
    for i in range(len(writers)):
        if r.random() < 0.7:
            ops.append(["add", i])
    k_ = 0
    while len(ops) < nops + len(writers):
        u = r.random()
        if u < 0.34:
            t = r.choice(TEXTS) + (" ; n%d" % k_ if r.random() < 0.5 else "")
            if r.random() < 0.1 and not ascii_only:
                t = r.choice(["", "   ", "; only comment %d" % k_])
            elif r.random() < 0.03:
                t = "M117 " + "x" * r.choice([300, 4100, 9000]) + " %d" % k_      # a very long statement
            ops.append(["write", t])
        elif u < 0.46:
            txt = (r.choice(UNI) if not ascii_only else "note") + " %d" % k_
            ops.append(["comment", txt])
        elif u < 0.54:
            ops.append(["move", r.randrange(-50, 50) + r.choice([0, 0.5, 0.125]), r.randrange(-50, 50)])
        elif u < 0.565:
            ops.append(["halt_seq", "stop %d" % k_])
        elif u < 0.58:
            ops.append(["call", r.choice(["fan", "sleep", "feed", "tool_on", "tool_off", "coolant_on", "coolant_off",
                                          "bed", "query", "circle", "polyline"]), r.randrange(1, 200)])
        elif u < 0.66:
            ops.append(["add", r.randrange(len(writers))])
        elif u < 0.72:
            ops.append(["remove", r.randrange(len(writers))])
        elif u < 0.728:
            ops.append(["set_le", r.choice(["os", "\\n", "\\r\\n", "\\r"])])
        elif u < 0.735:
            ops.append(["set_formatter", r.choice(["os", "\\n", "\\r\\n", "\\r"])])
        elif u < 0.75:
            ops.append(["wdisc", r.randrange(len(writers))])
        elif u < 0.82:
            ops.append(["flush"])
        elif u < 0.92:
            ops.append(["observe"])
        else:
            ops.append(["teardown"] if r.random() < 0.7 else ["teardown", False])
            if r.random() < 0.15:
                ops.append(["teardown"])          # twice in a row
        k_ += 1
    ops.append(["flush"] if r.random() < 0.5 else ["observe"])
    ops.append(["teardown"])
    # some writers are created by the builder itself from its configuration (output=,
    # print_lines=, direct_write=) instead of add_writer()
    via_config = {}
    if r.random() < 0.35:
        outs = [i for i, w_ in enumerate(writers) if w_["kind"] in
                ("path", "pathnested", "relpath", "bin", "text", "textnl", "bytesio", "stringio", "codecs", "tmptext")]
        cons = [i for i, w_ in enumerate(writers) if w_["kind"] == "console"]
        sers = [i for i, w_ in enumerate(writers) if w_["kind"] == "serial"]
        if outs and r.random() < 0.8:
            via_config["output"] = r.choice(outs)
        if cons and r.random() < 0.8:
            via_config["print_lines"] = cons[0]
        if sers and r.random() < 0.7:
            via_config["direct"] = sers[0]
    scn = {
        "via_config": via_config, "poison_check": r.random() < 0.25,
        "lane": "c14", "sub": sub, "line_ending": r.choice(["os", "\\n", "\\r\\n", "\\r\\n", "\\r"]), "writers": writers,
        "ops": ops, "draws": common.gen_draws(r) if sub == "mixed" else {},
        "cfg": {"greeting": r.choice(["start", ""]), "boot": 0.0, "drop_while_booting": False,
                "resend_with_ok": True},
        "max_steps": 120000,
        "sched": (common.gen_sched(r, "%s/%s/c14" % (seed, run), est_steps=4000) if sub == "mixed"
                  else {"seed": "%s/%s/c14" % (seed, run), "policy": "random", "p": 0.0, "pp": 0.0}),
    }
    return scn


class FakeStdoutBuffer(io.BytesIO):
    def isatty(self):
        return True


class DuckText:
    """A duck-typed text output: has `encoding`, accepts str only, is not an io class."""
    encoding = "utf-8"
    closed = False

    def __init__(self):
        self.parts = []

    def write(self, s):
        if not isinstance(s, str):
            raise TypeError("write() argument must be str, not %s" % type(s).__name__)
        self.parts.append(s)
        return len(s)

    def flush(self):
        pass


class FakeStdout:
    def __init__(self):
        self.buffer = FakeStdoutBuffer()

    def write(self, s):
        return len(s)

    def flush(self):
        pass

    def isatty(self):
        return True


def execute(scn, guide=None, keep=False):
    k, env = common.build(scn, guide)
    fw = env["fw"]
    m = shims.repo_modules()
    from gscrib.gcode_builder import GCodeBuilder
    from gscrib.writers.base_writer import BaseWriter
    from gscrib.writers.file_writer import FileWriter
    from gscrib.writers.console_writer import ConsoleWriter
    k.trace_files |= {m["fw"].__file__} if scn["sub"] == "mixed" else set()
    tmp = tempfile.mkdtemp(prefix="gscrib-c14-")
    viol = []
    state = {"done": False, "lines": 0, "observes": 0, "flushes": 0, "teardowns": 0}

    def V(cls, **kw):
        viol.append({"cls": cls, "detail": kw})

    class Rec(BaseWriter):
        def __init__(self, name):
            self.name = name
            self.log = []           # ("write", bytes) / ("connect",) / ("disconnect", wait) / ("flush",)

        def connect(self):
            self.log.append(("connect",))
            return self

        def disconnect(self, wait=True):
            self.log.append(("disconnect", wait))

        def write(self, statement):
            self.log.append(("write", bytes(statement)))

        def flush(self):
            self.log.append(("flush",))

        def lines(self):
            return [x[1] for x in self.log if x[0] == "write"]

    class W:   # model + handle of one pooled writer
        pass

    pool = []
    old_stdout = sys.stdout

    def make(spec):
        w = W()
        w.spec = spec
        w.kind = spec["kind"]
        w.registered = False
        w.expected = b""
        w.open = False          # path-based: file currently open (since the last disconnect)
        w.stream = None
        w.path = None
        w.ndisc = 0
        buf = spec.get("buffering", -1)
        kd = w.kind
        if kd in ("relpath", "relnested"):
            # a bare relative file name (the form the documentation uses); cwd is the scratch dir
            rel = spec["name"] + "-rel.gcode" if kd == "relpath" else os.path.join("rel", "sub", spec["name"] + ".gcode")
            w.path = os.path.join(tmp, rel)
            w.obj = FileWriter(rel)
        elif kd in ("path", "pathnested"):
            w.path = os.path.join(tmp, "nested", "deeper", spec["name"] + ".gcode") if kd == "pathnested" \
                else os.path.join(tmp, spec["name"] + ".gcode")
            w.obj = FileWriter(w.path)
        elif kd == "bin":
            w.path = os.path.join(tmp, spec["name"] + ".bin")
            w.stream = open(w.path, "wb", buffering=buf if buf != 1 else 2)
            w.obj = FileWriter(w.stream)
        elif kd in ("text", "textnl"):
            w.path = os.path.join(tmp, spec["name"] + ".txt")
            w.stream = open(w.path, "w", encoding="utf-8", newline="" if kd == "textnl" else None,
                            buffering=buf if buf not in (0, 1) else -1)
            w.obj = FileWriter(w.stream)
        elif kd == "codecs":
            import codecs
            w.path = os.path.join(tmp, spec["name"] + ".codecs.txt")
            w.stream = codecs.open(w.path, "w", "utf-8")      # a text stream that is not a TextIOBase
            w.obj = FileWriter(w.stream)
        elif kd == "tmptext":
            w.stream = tempfile.NamedTemporaryFile("w", encoding="utf-8", newline="", dir=tmp,
                                                   suffix=".tmp.txt", delete=False)
            w.path = w.stream.name
            w.obj = FileWriter(w.stream)
        elif kd == "ducktext":
            w.stream = DuckText()
            w.obj = FileWriter(w.stream)
        elif kd == "bytesio":
            w.stream = io.BytesIO()
            w.obj = FileWriter(w.stream)
        elif kd == "stringio":
            w.stream = io.StringIO(newline="")
            w.obj = FileWriter(w.stream)
        elif kd == "console":
            fake = FakeStdout()
            w.fake_stdout = fake
            sys.stdout = fake
            try:
                w.obj = ConsoleWriter()
            finally:
                sys.stdout = old_stdout
            w.stream = fake.buffer
        elif kd == "custom":
            w.obj = Rec(spec["name"])
        elif kd == "serial":
            if spec.get("transport") == "socket":
                from gscrib.writers.socket_writer import SocketWriter
                w.obj = SocketWriter("10.0.0.5", 8080)
            else:
                from gscrib.writers.serial_writer import SerialWriter
                w.obj = SerialWriter("/dev/sim", 115200)
        return w

    def disk(w):
        """Content as an outside observer sees it now (independent descriptor)."""
        if w.path is not None:
            if not os.path.exists(w.path):
                return None
            with open(w.path, "rb") as f:
                return f.read()
        if w.kind in ("bytesio", "console"):
            return w.stream.getvalue()
        if w.kind == "ducktext":
            return "".join(w.stream.parts).encode("utf-8")
        if w.kind == "stringio":
            return w.stream.getvalue().encode("utf-8")
        return None

    def check_prefix(w, where):
        d = disk(w)
        if d is None:
            return
        if not w.expected.startswith(d):
            V("file-not-prefix", writer=w.spec["name"], kind=w.kind, where=where, disk=len(d),
              expected=len(w.expected))

    def check_equal(w, where):
        d = disk(w)
        if d is None:
            if w.kind in PATH_KINDS and w.expected:
                V("file-missing", writer=w.spec["name"], where=where)
            return
        if d != w.expected:
            V("file-content", writer=w.spec["name"], kind=w.kind, where=where, disk=len(d),
              expected=len(w.expected),
              first_diff=next((i for i, (a, b) in enumerate(zip(d, w.expected)) if a != b), min(len(d), len(w.expected))))

    def open_fds_of(path):
        out = 0
        for fd in os.listdir("/proc/self/fd"):
            try:
                if os.readlink("/proc/self/fd/" + fd) == path:
                    out += 1
            except OSError:
                pass
        return out

    def main():
        le = scn["line_ending"]
        for spec in scn["writers"]:
            pool.append(make(spec))
        vc = scn.get("via_config") or {}
        kwargs = {"line_endings": le}
        if "output" in vc:
            w_ = pool[vc["output"]]
            kwargs["output"] = w_.obj._output      # the path string or the stream handed to FileWriter
        if "print_lines" in vc:
            kwargs["print_lines"] = True
        if "direct" in vc:
            sp = pool[vc["direct"]].spec
            if sp.get("transport") == "socket":
                kwargs.update(direct_write="socket", host="10.0.0.5", port=8080)
            else:
                kwargs.update(direct_write="serial", port="/dev/sim", baudrate=115200)
        if "print_lines" in vc:
            sys.stdout = pool[vc["print_lines"]].fake_stdout
        try:
            g = GCodeBuilder(**kwargs)
        finally:
            sys.stdout = old_stdout
        # adopt the writers the builder created for itself
        if vc:
            from gscrib.writers.serial_writer import SerialWriter as _SW
            from gscrib.writers.socket_writer import SocketWriter as _KW
            i_ = 0
            made = []
            while True:
                try:
                    made.append(g.get_writer(i_))
                except IndexError:
                    break
                i_ += 1
            want = len([x for x in ("output", "print_lines", "direct") if x in vc])
            if len(made) != want:
                V("config-writers", got=[type(x).__name__ for x in made], want=want)
            for obj in made:
                if isinstance(obj, ConsoleWriter) and "print_lines" in vc:
                    tgt = pool[vc["print_lines"]]
                elif isinstance(obj, FileWriter) and "output" in vc:
                    tgt = pool[vc["output"]]
                elif isinstance(obj, (_SW, _KW)) and "direct" in vc:
                    tgt = pool[vc["direct"]]
                else:
                    V("config-writers", unexpected=type(obj).__name__)
                    continue
                tgt.obj = obj
                tgt.registered = True
            k.probe("c14.writers_from_config", len(made))
        eol = os.linesep if le == "os" else le.encode().decode("unicode-escape")
        cur = {"eol": eol}
        r0 = Rec("R0")
        g.add_writer(r0)
        seen = 0

        def absorb(nlines_expected, raw=None):
            """Fold the lines R0 just received into the model of every registered writer."""
            nonlocal seen
            new = r0.lines()[seen:]
            seen += len(new)
            state["lines"] += len(new)
            if nlines_expected is not None and len(new) != nlines_expected:
                V("line-count", got=len(new), want=nlines_expected)
            for b in new:
                try:
                    t = b.decode("utf-8")
                except UnicodeDecodeError:
                    V("not-utf8", line=b[:40].hex())
                    continue
                eol = cur["eol"]
                if not t.endswith(eol) or (eol in t[:-len(eol)]):
                    V("line-ending", line=t[:40])
            eol = cur["eol"]
            if raw is not None and new and new[0] != (raw.rstrip() + eol).encode("utf-8"):
                V("raw-bytes", got=new[0][:60].hex(), want=(raw.rstrip() + eol).encode("utf-8")[:60].hex())
            for w in pool:
                if not w.registered:
                    continue
                for b in new:
                    if w.kind in PATH_KINDS and not w.open:
                        w.open = True
                        w.expected = b""        # connect() opens with 'wb+'
                    w.expected += b

        for op in scn["ops"]:
            kind = op[0]
            k.ev("op", *[str(x)[:40] for x in op], [w.spec["kind"] for w in pool if w.registered])
            try:
                if kind == "add":
                    w = pool[op[1]]
                    g.add_writer(w.obj)
                    w.registered = True
                elif kind == "remove":
                    w = pool[op[1]]
                    g.remove_writer(w.obj)
                    w.registered = False
                elif kind == "write":
                    g.write(op[1])
                    absorb(1, raw=op[1])
                elif kind == "comment":
                    g.comment(op[1])
                    absorb(1)
                elif kind == "move":
                    g.move(x=op[1], y=op[2])
                    absorb(1)
                elif kind == "halt_seq":
                    g.emergency_halt(op[1])
                    absorb(4)
                elif kind == "call":
                    # other write-producing builder calls; a call the builder rejects (interlock,
                    # validation) is not an error of the delivery path - whatever the reference
                    # writer received is the reference
                    v_ = op[2]
                    try:
                        {"fan": lambda: g.set_fan_speed(v_ % 256), "sleep": lambda: g.sleep(v_ / 10.0),
                         "feed": lambda: g.set_feed_rate(100 + v_), "tool_on": lambda: g.tool_on("cw", 100 + v_),
                         "tool_off": g.tool_off, "coolant_on": lambda: g.coolant_on("flood"),
                         "coolant_off": g.coolant_off, "bed": lambda: g.set_bed_temperature(v_ % 120),
                         "query": lambda: g.query("position"),
                         "circle": lambda: (g.set_resolution(2.0 + v_ % 3), g.move(x=0, y=0),
                                            g.trace.circle(center=(5 + v_ % 7, 0))),
                         "polyline": lambda: g.trace.polyline([(v_ % 9, 1), (2, v_ % 5), (3, 3)])}[op[1]]()
                    except SimAbort:
                        raise
                    except Exception as e:
                        from gscrib.excepts import GscribError as _GE
                        if not isinstance(e, (_GE, ValueError, TypeError)):
                            raise
                        k.probe("c14.builder_call_rejected")
                    absorb(None)
                elif kind == "set_le":
                    # the application changes the line ending of the live formatter
                    g.format.set_line_endings(op[1])
                    cur["eol"] = os.linesep if op[1] == "os" else op[1].encode().decode("unicode-escape")
                elif kind == "set_formatter":
                    # the application installs another formatter object
                    from gscrib.formatters import DefaultFormatter as _DF
                    f_ = _DF()
                    f_.set_line_endings(op[1])
                    g.set_formatter(f_)
                    cur["eol"] = os.linesep if op[1] == "os" else op[1].encode().decode("unicode-escape")
                elif kind == "wdisc":
                    # the application disconnects one writer itself (FileWriter reopens lazily)
                    w = pool[op[1]]
                    if w.kind != "serial":
                        w.obj.disconnect()
                        if w.kind in PATH_KINDS:
                            w.open = False
                        if w.kind != "custom":
                            check_equal(w, "writer-disconnect")
                elif kind == "flush":
                    g.flush()
                    state["flushes"] += 1
                    for w in pool:
                        if w.registered:
                            check_equal(w, "flush")
                        else:
                            check_prefix(w, "flush")
                elif kind == "observe":
                    state["observes"] += 1
                    for w in pool:
                        check_prefix(w, "observe")
                elif kind == "teardown":
                    reg = [w for w in pool if w.registered]
                    nd0 = {id(w): sum(1 for x in w.obj.log if x[0] == "disconnect")
                           for w in reg if w.kind == "custom"}
                    r0d = sum(1 for x in r0.log if x[0] == "disconnect")
                    if len(op) > 1:
                        g.teardown(op[1])          # teardown(wait=False)
                    else:
                        g.teardown()
                    state["teardowns"] += 1
                    if sum(1 for x in r0.log if x[0] == "disconnect") != r0d + 1:
                        V("teardown-disconnect-count", writer="R0")
                    for w in reg:
                        check_equal(w, "teardown")
                        if w.kind == "custom":
                            n1 = sum(1 for x in w.obj.log if x[0] == "disconnect")
                            if n1 != nd0[id(w)] + 1:
                                V("teardown-disconnect-count", writer=w.spec["name"], got=n1 - nd0[id(w)])
                        if w.kind in PATH_KINDS:
                            if open_fds_of(w.path):
                                V("teardown-file-left-open", writer=w.spec["name"])
                            w.open = False
                        elif w.stream is not None and w.kind != "console" and w.stream.closed:
                            V("teardown-closed-user-stream", writer=w.spec["name"])
                        if w.kind == "serial" and getattr(w.obj, "is_connected", False):
                            V("teardown-serial-connected")
                        w.registered = False
                    try:
                        g.get_writer(0)
                        V("teardown-writers-left")
                    except IndexError:
                        pass
                    g.add_writer(r0)       # the reference stream stays registered
            except SimAbort:
                raise
            except Exception as e:
                V("unexpected-exception", op=op[:2], exc="%s: %s" % (type(e).__name__, str(e)[:80]))
                break
        if scn.get("poison_check") and not any(w.registered for w in pool):
            # a writer fails once; the statements after it must still reach every writer
            class Flaky(Rec):
                def write(self_, statement):
                    if not self_.log:
                        self_.log.append(("failed",))
                        raise OSError(5, "Input/output error")
                    Rec.write(self_, statement)
            fl = Flaky("flaky")
            try:
                g.get_writer(0)
            except IndexError:
                g.add_writer(r0)
            g.add_writer(fl)
            n0 = len(r0.lines())
            try:
                g.write("G4 P1 ; the flaky writer fails on this one")
                V("poison-check", problem="no exception for a failing writer")
            except SimAbort:
                raise
            except Exception:
                pass
            try:
                g.write("G4 P2 ; after the failure")
                g.emergency_halt("after the failure")
            except SimAbort:
                raise
            except Exception as e:
                V("poison-check", problem="later write raised", exc="%s: %s" % (type(e).__name__, str(e)[:60]))
            got_r0 = len(r0.lines()) - n0
            if got_r0 != 6 or len(fl.lines()) != 5:
                V("poison-check", problem="statements after a failed write were not delivered",
                  r0_lines=got_r0, flaky_lines=len(fl.lines()))
            k.probe("c14.poison_check")
            seen = len(r0.lines())
        # delivery to recording writers: the lines R0 saw while they were registered
        for w in pool:
            if w.kind == "custom" and w.obj.lines() != split_like(w.expected, w.obj.lines()):
                V("custom-delivery", writer=w.spec["name"], got=len(w.obj.lines()))
        if scn["sub"] == "mixed":
            k.sleep(2.0 + sum((scn["draws"].get("lat") or [0])[:8]))
        state["done"] = True
        # tear-down outside the judged history: a writer that was removed (not torn down) is
        # still connected and its threads would run forever
        for w in pool:
            if w.kind == "serial":
                try:
                    w.obj.disconnect(False)
                except SimAbort:
                    raise
                except BaseException:
                    pass

    old_cwd = os.getcwd()
    os.chdir(tmp)
    try:
        k.run(main)
    finally:
        os.chdir(old_cwd)
        sys.stdout = old_stdout
        for w in pool:
            if w.stream is not None and w.path is not None and not w.stream.closed:
                try:
                    w.stream.close()
                except Exception:
                    pass
        shutil.rmtree(tmp, ignore_errors=True)
    # the direct-write writer: the device received exactly the lines written while registered
    for w in pool:
        if w.kind == "serial":
            want = [l for l in w.expected.decode("utf-8").splitlines()]
            want = [l.strip() for l in want]
            got = [rx["text"].rstrip("\r\n") for rx in fw.rx if not is_handshake(rx["text"])]
            if got != want and not k.abort_reason:
                V("serial-delivery", got=got[:5], want=want[:5], n_got=len(got), n_want=len(want))
    if k.abort_reason in ("wall-timeout",) or (k.abort_reason or "").startswith("tripwire"):
        V("harness", reason=k.abort_reason)
    elif k.abort_reason:
        V("liveness", reason=k.abort_reason)
    elif not state["done"] and not viol:
        V("liveness", reason="main-incomplete")
    for t in k.threads:
        if t.exc is not None and not isinstance(t.exc, SimAbort):
            V("thread-died", thread=t.name, exc="%s: %s" % (type(t.exc).__name__, str(t.exc)[:80]))
    extra = {"info": {"lines": state["lines"], "observes": state["observes"], "flushes": state["flushes"],
                      "teardowns": state["teardowns"], "writers": [w["kind"] for w in scn["writers"]]}}
    k.probe("c14.crash_observe", state["observes"])
    k.probe("c14.flush", state["flushes"])
    k.probe("c14.teardown", state["teardowns"])
    if keep:
        extra["log"] = k.log
    return common.finish(k, scn, viol, extra)


def split_like(expected, lines):
    """Cut `expected` into pieces of the same lengths as `lines` (for a list comparison)."""
    out, pos = [], 0
    for l in lines:
        out.append(expected[pos:pos + len(l)])
        pos += len(l)
    if pos != len(expected):
        out.append(expected[pos:])
    return out


class C14Lane(Lane):
    prop = "C14"
    level = "exploration"
    technique = ("seeded operation-sequence simulation against a reference stream with crash-observe points and "
                 "randomised buffering; in the 'mixed' sub-lane a SerialWriter on the simulated device runs the "
                 "real printcore threads under the deterministic scheduler")
    rule = ("one evaluation = one generated history of add/remove/write/comment/move/emergency_halt/flush/teardown/"
            "crash-observe over 1-7 writers; non-trivial = >=2 lines written and >=1 flush/teardown/observe; "
            "distinct = distinct digest of the event log for 'mixed', distinct scenario for 'files'")
    assumptions = (
        "a crash is modelled as 'what an independent descriptor reads now' (no kernel page-cache loss)",
        "path-based writers reopen with 'wb+' after teardown, so their expectation restarts there",
        "no two writers share one underlying stream; text files are opened as UTF-8",
        "with a SerialWriter registered only non-empty ASCII statements are generated",
    )
    real_vs_stub = {
        "real": ["GCodeBuilder/GCodeCore.write/flush/teardown/add_writer/remove_writer", "FileWriter", "ConsoleWriter",
                 "CPython buffered/text I/O on real files", "SerialWriter->PrintrunWriter->printcore->Device (mixed)"],
        "stub": ["sys.stdout (captured)", "serial port, threads, clock, firmware (mixed sub-lane)"],
    }

    def subs(self, tier):
        return [("files", 2000), ("mixed", 500)] if tier == "quick" else [("files", 240000), ("mixed", 48000)]

    def gen(self, seed, run, sub, tier):
        return gen(seed, run, sub, tier)

    def execute(self, scn, guide=None):
        return execute(scn, guide)

    def nontrivial(self, scn, res):
        i = res.get("info", {})
        return i.get("lines", 0) >= 2 and (i.get("observes", 0) + i.get("flushes", 0) + i.get("teardowns", 0)) >= 1

    def sample(self, scn, res):
        return {"sub": scn["sub"], "line_ending": scn["line_ending"], "writers": scn["writers"][:4],
                "ops": scn["ops"][:12], "info": res.get("info"), "violations": res["viol"][:2]}


LANE = C14Lane()
