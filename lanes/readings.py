"""Reading-availability oracle shared by the C16 and C18 lanes: after write() returns, the
caller's get_parameter snapshot must equal a reference dictionary (first occurrence of each
letter in a report wins, other letters keep their value) after some prefix of the emitted
reports that includes every report emitted up to that statement's acknowledgement."""

ALPHABET = "ABCDEFGHIJKLMNOPQRSTUVWXYZ"


def snapshot(w, k):
    k.nopreempt += 1
    try:
        return {L: w.get_parameter(L) for L in ALPHABET}
    finally:
        k.nopreempt -= 1


def apply_report(state, vals):
    st = dict(state)
    for kk, v in vals.items():
        st[kk.upper()] = v
    return st


class Observer:
    def __init__(self, scn):
        self.scn = scn
        self.snaps = []     # (stmt index, seq, snapshot)

    def after_write(self, i, w, k):
        self.snaps.append((i, k.seq, snapshot(w, k)))

    def extra(self):
        return {"info": {"snapshots": len(self.snaps)}}

    def check(self, scn, k, fw, hist):
        viol = []
        readings = scn["readings"]
        stmts = [s.strip() for s in scn["stmts"]]
        # cumulative reference states in emission order
        rx_of0 = {}
        for rx in fw.rx:
            t = rx["text"].rstrip("\r\n")
            if t in stmts:
                rx_of0.setdefault(stmts.index(t), rx["idx"])
        ack0 = {}
        for e in fw.emitted:
            if e["answers"] is not None and (e["ack"] or e["err"]):
                ack0.setdefault(e["answers"], e["seq"])
        discs = sorted(h[2] for h in hist if h[0] == "disc-call")
        # acknowledgements whose write() returned, with the return stamp
        returned = [(ack0.get(rx_of0.get(i)), r_seq) for (i, r_seq, _) in self.snaps]
        returned = [(a, r_) for (a, r_) in returned if a is not None and a <= r_]

        def surely_read(seq):
            """The host reads lines in FIFO order: a report is certainly absorbed once a *later*
            acknowledgement of the same session made a write() return.  A report delivered shortly
            before or during a disconnect may never be read (unknown letters, '?')."""
            last = None
            for h in hist:
                if h[2] < seq and h[0] in ("disc-call", "connect-call"):
                    last = h[0]
            if last == "disc-call":
                return False        # delivered while the session was being closed
            nd = next((d for d in discs if d > seq), float("inf"))
            return any(a > seq and r_ < nd for (a, r_) in returned)

        states = [{L: None for L in ALPHABET}]
        seqs = []
        for e in fw.emitted:
            if e["dropped"]:
                continue
            vals = readings.get(e["text"].strip())
            if vals is not None:
                if not surely_read(e["seq"]) and not (e["ack"] and e["answers"] is not None
                                                      and any(a == e["seq"] for (a, _) in returned)):
                    vals = {kk: "?" for kk in vals}
                    k.probe("c18.report_possibly_unread")
                states.append(apply_report(states[-1], vals))
                seqs.append(e["seq"])
        rx_of = {}
        for rx in fw.rx:
            t = rx["text"].rstrip("\r\n")
            if t in stmts:
                rx_of.setdefault(stmts.index(t), rx["idx"])
        ack_seq = {}
        for e in fw.emitted:
            if e["answers"] is not None and (e["ack"] or e["err"]):
                ack_seq.setdefault(e["answers"], e["seq"])
        for (i, r_seq, snap) in self.snaps:
            a = ack_seq.get(rx_of.get(i))
            if a is None or a > r_seq:
                continue            # synchrony is C16's business; nothing can be demanded here
            lower = sum(1 for s_ in seqs if s_ <= a)
            upper = sum(1 for s_ in seqs if s_ < r_seq)
            # Reports up to the acknowledgement must be fully absorbed; a report that is still
            # being parsed by the read thread when write() returns may be absorbed partially
            # (the property makes no atomicity claim), so letters are judged independently
            # over the in-flight window.
            ok = all(any(_same(snap[L], states[j][L]) for j in range(lower, upper + 1)) for L in ALPHABET)
            if ok and not any(all(_same(snap[L], states[j][L]) for L in ALPHABET)
                              for j in range(lower, upper + 1)):
                k.probe("c18.torn_snapshot_of_in_flight_report")
            if ok:
                if lower:
                    k.probe("c18.snapshot_checked")
                if upper > lower:
                    k.probe("c18.report_in_flight_at_return")
                continue
            want = states[lower]
            diff = {L: [snap[L], want[L]] for L in ALPHABET if not _same(snap[L], want[L])}
            viol.append({"cls": "reading-mismatch", "detail": {"stmt": i, "got_vs_want": diff,
                                                               "reports_before_ack": lower}})
        return viol


def _same(a, b):
    if b == "?":
        return True
    if a is None or b is None:
        return a is None and b is None
    return float(a) == float(b)


