"""C17 - socket input is split into lines independently of packet boundaries.

Sub-lane "direct": real Device in socket mode over FakeSocket, one simulated reader thread
calling readline() until READ_EOF / DeviceError; kernel timers make the bytes arrive.
Sub-lane "core": the same stream read by the running read thread of the real printcore
(recvcb collects the lines).
"""
from lanes import common
from sim import shims
from sim.kernel import SimAbort
from sim.runner import Lane


def gen_stream(r, text_only):
    n = r.choice([0, 1, 5, 40, 200, 700, 1600, 3000])
    nl = r.choice([0.0, 0.01, 0.05, 0.2, 0.5])
    crlf = r.random() < 0.3
    out = bytearray()
    while len(out) < n:
        if r.random() < nl:
            out += b"\r\n" if crlf and r.random() < 0.7 else b"\n"
        elif text_only:
            out.append(r.choice(b"abcdefghijklmnopqrstuvwxyzXYZ0123456789:.- <>|[]"))
        else:
            out.append(r.randrange(256) if r.random() < 0.5 else r.choice(b"ok T:12.5 X:1\r "))
    if r.random() < 0.5:
        out += b"\n"
    if r.random() < 0.2:
        out += b"\n" * r.randrange(1, 4)
    if r.random() < 0.15:                      # a very long line spanning many chunks
        out += bytes(r.choice(b"abcxyz") for _ in range(r.randrange(600, 1500))) + b"\n"
    if r.random() < 0.04:                      # a line far longer than any buffer size one might assume
        out += bytes(r.choice(b"0123456789abcdef") for _ in range(r.choice([16384, 20000, 40000]))) + b"\n"
    if r.random() < 0.3:                       # unterminated tail
        out += bytes(r.choice(b"tail") for _ in range(r.randrange(1, 40)))
    return bytes(out)


def gen(seed, run, sub="direct", tier="quick"):
    r = common.rng_for(seed, run, "c17/" + sub)
    core = sub == "core"
    stream = gen_stream(r, core)
    if not core and r.random() < 0.05:
        stream = b"\n" + stream                          # the stream starts with a newline
    if not core and r.random() < 0.05 and len(stream) > 10:
        stream = (stream * (1 + 512 // len(stream)))[:r.choice([256, 512, 768])]   # exact multiple of the read size
    if core:
        stream = b"start\n" + stream
    arrivals = []
    t = 0.0
    pos = 0
    align = r.random() < 0.25   # chunk boundaries right after a newline
    crsplit = (not align) and r.random() < 0.1
    silence = r.choice([0, 0, 0, 0, 0.02, 0.1]) if sub == "direct" else 0
    nsil = 0
    while pos < len(stream):
        sz = r.randint(1, 256)
        if align:
            j = stream.find(b"\n", pos, pos + sz)
            if j >= 0:
                sz = j + 1 - pos
        elif crsplit:
            j = stream.find(b"\r\n", pos, pos + sz)
            if j >= 0:
                sz = j + 1 - pos          # CR is the last byte of this arrival, LF starts the next
        t += r.choice([0, 0, 0.001, 0.1, 0.26, 0.6])
        if silence and nsil < 3 and r.random() < silence:
            t += r.choice([31.0, 70.0, 400.0])      # the device is silent for a long while
            nsil += 1
        arrivals.append([round(t, 6), stream[pos:pos + sz].hex()])
        pos += sz
    end = r.choice(["eof", "eof", "eof", "reset"])
    t += r.choice([0, 0.001, 0.3, 1.0])
    fr = r.choice([0, 0, 1, 2, 3, 7, 64, 255])
    trickle = sub == "direct" and r.random() < 0.02
    if trickle:
        # one long line handed out a byte at a time: thousands of buffered chunks
        stream = bytes(r.choice(b"abcdefgh") for _ in range(r.choice([4200, 6000, 9000]))) + b"\nend\n"
        arrivals = [[0.0, stream.hex()]]
        t = 0.5
        fr = 1
    wfail_at = r.randrange(1, 40) if (sub == "direct" and r.random() < 0.1) else None
    draws = {"cut": ([1] if trickle else [r.choice([fr, fr, 0.5, 0]) for _ in range(24)]) if fr else [],
             "spurious": [1 if r.random() < 0.15 else 0 for _ in range(16)] if r.random() < 0.4 else []}
    second = []
    if sub == "direct" and end == "eof" and r.random() < 0.15:
        s2 = gen_stream(r, False)[:600]
        t2, pos2 = 0.0, 0
        while pos2 < len(s2):
            sz = r.randint(1, 256)
            t2 += r.choice([0, 0.001, 0.1, 0.3])
            second.append([round(t2, 6), s2[pos2:pos2 + sz].hex()])
            pos2 += sz
    sched = common.gen_sched(r, "%s/%s/c17" % (seed, run), est_steps=2000, victims=("read", "main", "send"))
    if sub == "direct":
        sched["p_stall"] = 0.0      # one thread only: stalling it just burns virtual time
    return {
        "second": second, "wfail_at": wfail_at, "wfail_n": r.choice([1, 1, 3, 4, 6]),
        "reset_at": r.randrange(1, 40) if (sub == "direct" and r.random() < 0.1) else None,
        "lane": "c17", "sub": sub, "arrivals": arrivals, "end": end, "end_at": round(t, 6),
        "draws": draws, "cfg": {"greeting": ""}, "max_steps": 400000 + int(80 * t),
        "sched": sched,
    }


def execute(scn, guide=None, keep=False):
    k, env = common.build(scn, guide, max_time=600.0 + 2.0 * float(scn.get("end_at", 0)))
    m = shims.repo_modules()
    dev = m["dev"]
    stream = b"".join(bytes.fromhex(h) for _, h in scn["arrivals"])
    res = {"results": [], "calls": 0, "empties": 0, "eof": False, "err": None, "conn_after": None}
    core = scn["sub"] == "core"
    state = {"done": False}

    def schedule(sock):
        for (t, h) in scn["arrivals"]:
            k.at(t, sock.deliver, bytes.fromhex(h))
        if scn["end"] == "eof":
            k.at(scn["end_at"], sock.peer_close)
        else:
            k.at(scn["end_at"], sock.peer_reset)

    def main_direct():
        d = dev.Device("10.0.0.5:8080")
        d.connect()
        sock = env["port"]
        state["sock1"] = sock
        schedule(sock)
        cap = 8 * (len(scn["arrivals"]) + stream.count(b"\n") + 8) + 4000 + int(6 * scn.get("end_at", 0))
        while res["calls"] < cap:
            res["calls"] += 1
            if scn.get("reset_at") == res["calls"]:
                d.reset()            # documented to have no effect on socket connections
                k.probe("c17.reset_called_mid_stream")
            if scn.get("wfail_at") is not None and scn["wfail_at"] <= res["calls"] < scn["wfail_at"] + scn.get("wfail_n", 1):
                # the application writes while reading and the write fails (peer shut its read side)
                sock.wfail = True
                try:
                    d.write(b"M105\n")
                except dev.DeviceError:
                    k.probe("c17.write_failed_mid_stream")
            try:
                line = d.readline()
            except SimAbort:
                raise
            except dev.DeviceError as e:
                res["err"] = "DeviceError"
                k.ev("readline-raise", str(e)[:40])
                break
            if line is dev.READ_EOF:
                res["eof"] = True
                k.ev("readline", "EOF")
                break
            if line == b"":
                res["empties"] += 1
                k.probe("c17.read_empty")
            else:
                res["results"].append(line)
                k.ev("readline", len(line))
        res["conn_after"] = d.is_connected
        d.disconnect()
        if scn.get("second") and res["eof"]:
            # the same Device object is connected again and reads a second stream
            d.connect()
            sock2 = env["port"]
            base = k.now
            for (t, h) in scn["second"]:
                k.at(base + t, sock2.deliver, bytes.fromhex(h))
            k.at(base + (scn["second"][-1][0] if scn["second"] else 0) + 0.3, sock2.peer_close)
            got2, calls2 = [], 0
            while calls2 < 6000:
                calls2 += 1
                try:
                    line = d.readline()
                except dev.DeviceError:
                    break
                if line is dev.READ_EOF:
                    res["eof2"] = True
                    break
                if line != b"":
                    got2.append(line)
            res["second"] = b"".join(got2)
            res["second_lines"] = got2
            d.disconnect()
            k.probe("c17.second_stream_same_device")
        state["done"] = True

    def main_core():
        pc = m["pc"].printcore()
        lines = res["results"]
        pc.recvcb = lambda l: (lines.append(l.encode("utf-8")), k.ev("recv", len(l)))
        errs = []
        pc.errorcb = lambda e: (errs.append(e), k.ev("err", str(e)[:40]))
        res["errs"] = errs
        pc.connect("10.0.0.5:8080", 0)
        sock = env["port"]
        schedule(sock)
        t0 = k.now
        while pc.read_thread is not None and pc.read_thread.is_alive() and k.now - t0 < 300:
            k.sleep(0.2)
        res["eof"] = bool(pc.stop_read_thread)
        res["conn_after"] = bool(pc.printer and pc.printer.is_connected)
        pc.disconnect()
        state["done"] = True

    # the firmware model is not used here: outgoing bytes ("G4 P0") are accepted and ignored
    env["fw"].dead = True
    env["fw"].attach = lambda port: None
    k.run(main_core if core else main_direct)
    sock = state.get("sock1") or env.get("port")
    viol = check(scn, k, res, stream, sock, state, core)
    extra = {"info": {"bytes": len(stream), "lines": stream.count(b"\n"), "calls": res["calls"],
                      "empties": res["empties"], "results": len(res["results"])}}
    if keep:
        extra.update({"log": k.log, "res": res})
    return common.finish(k, scn, viol, extra)


def check(scn, k, res, stream, sock, state, core):
    viol = []

    def V(cls, **kw):
        viol.append({"cls": cls, "detail": kw})

    if k.abort_reason in ("wall-timeout",) or (k.abort_reason or "").startswith("tripwire"):
        V("harness", reason=k.abort_reason)
        return viol
    # reach probes on the stream/fragmentation itself
    bounds = []
    pos_ = 0
    for _, h in scn["arrivals"]:
        pos_ += len(h) // 2
        bounds.append(pos_)
    nl = [i for i, b in enumerate(stream) if b == 10]
    if any(stream[b - 1:b] == b"\n" for b in bounds if b):
        k.probe("c17.newline_last_byte_of_chunk")
    prev = 0
    starts = [0] + [i + 1 for i in nl]
    for a_, e_ in zip(starts, nl):
        crossed = sum(1 for b in bounds if a_ < b <= e_)
        if crossed >= 2:
            k.probe("c17.line_spans_3plus_chunks")
            break
    prevb = 0
    for b in bounds:
        if stream[prevb:b].count(b"\n") >= 2:
            k.probe("c17.several_lines_in_one_chunk")
            break
        prevb = b
    if b"\n\n" in stream:
        k.probe("c17.empty_line")
    handed = bytes(sock.handed) if sock is not None else b""
    results = res["results"]
    if core:
        # the read thread forwards every decoded line longer than one character to recvcb
        want = [l for l in split_lines(handed) if len(l) > 1]
        if scn["end"] == "reset" or not res["eof"]:
            if results != want[:len(results)]:
                V("lines-differ", got=[x[:20] for x in results[:4]], want=[x[:20] for x in want[:4]])
        elif results != want:
            V("lines-differ", n_got=len(results), n_want=len(want),
              first_diff=next((i for i, (a, b) in enumerate(zip(results, want)) if a != b), None))
    else:
        got = b"".join(results)
        if scn["end"] == "eof":
            if got != handed:
                V("content", got_len=len(got), handed_len=len(handed),
                  first_diff=next((i for i, (a, b) in enumerate(zip(got, handed)) if a != b), min(len(got), len(handed))))
        elif not handed.startswith(got):
            V("content-prefix", got_len=len(got), handed_len=len(handed))
        for i, l in enumerate(results):
            last = i == len(results) - 1
            nn = l.count(b"\n")
            if nn == 1 and l.endswith(b"\n"):
                continue
            if nn == 0 and last and scn["end"] == "eof" and res["eof"]:
                k.probe("c17.unterminated_tail")
                continue
            V("shape", index=i, newlines=nn, line=l[:30].hex())
        if scn["end"] == "eof":
            if handed != stream:
                V("not-drained", handed=len(handed), stream=len(stream))
            if not res["eof"]:
                V("no-eof", calls=res["calls"])
            elif res["conn_after"]:
                V("still-connected-after-eof")
        else:
            if not (res["err"] or res["eof"]):
                V("no-error-after-reset", calls=res["calls"])
        if scn.get("second") and res["eof"]:
            want2 = b"".join(bytes.fromhex(h) for _, h in scn["second"])
            if res.get("second") != want2 or not res.get("eof2"):
                V("second-stream", got_len=len(res.get("second") or b""), want_len=len(want2), eof=res.get("eof2"))
            for i, l in enumerate(res.get("second_lines", [])[:-1]):
                if l.count(b"\n") != 1 or not l.endswith(b"\n"):
                    V("second-stream-shape", index=i)
                    break
        # bounded progress
        bound = 4 * (len(scn["arrivals"]) + stream.count(b"\n") + k.probes.get("sock.no_data", 0)
                     + k.probes.get("sock.short_read", 0)) + 16
        if res["calls"] > bound:
            V("progress", calls=res["calls"], bound=bound)
    if k.abort_reason:
        V("liveness", reason=k.abort_reason)
    elif not state["done"]:
        V("liveness", reason="main-incomplete")
    for t in k.threads:
        if t.exc is not None and not isinstance(t.exc, SimAbort):
            V("thread-died", thread=t.name, exc="%s: %s" % (type(t.exc).__name__, str(t.exc)[:80]))
    return viol


def split_lines(data):
    out = []
    pos = 0
    while pos < len(data):
        j = data.find(b"\n", pos)
        if j < 0:
            out.append(data[pos:])
            break
        out.append(data[pos:j + 1])
        pos = j + 1
    return out


class C17Lane(Lane):
    prop = "C17"
    level = "exploration"
    technique = ("deterministic simulation: real Device socket reader (and printcore read thread) over a fake "
                 "non-blocking socket whose chunk arrival times, short reads, no-data results, spurious "
                 "readiness, EOF and reset are driven by a seeded virtual-time kernel")
    rule = ("one evaluation = one byte stream cut into 1..256-byte arrivals at seeded virtual times, read to "
            "EOF/reset; non-trivial = stream has >=2 newlines or >=300 bytes; distinct = distinct digest of the "
            "event log (arrivals, read sizes, results)")
    assumptions = (
        "socket file semantics of an unbuffered 'rwb' makefile on a non-blocking socket: None / b'' / 1..n bytes",
        "core sub-lane uses text streams only (printcore decodes UTF-8 and drops lines of length <= 1)",
    )
    real_vs_stub = {
        "real": ["gscrib.printrun.device.Device (_connect_socket, _readline_socket, _readline_buf)",
                 "gscrib.printrun.printcore read thread (core sub-lane)"],
        "stub": ["socket.socket/makefile", "selectors.DefaultSelector", "threading", "time"],
    }

    def subs(self, tier):
        return [("direct", 2400), ("core", 600)] if tier == "quick" else [("direct", 240000), ("core", 40000)]

    def gen(self, seed, run, sub, tier):
        return gen(seed, run, sub, tier)

    def execute(self, scn, guide=None):
        return execute(scn, guide)

    def nontrivial(self, scn, res):
        i = res.get("info", {})
        return i.get("lines", 0) >= 2 or i.get("bytes", 0) >= 300

    def sample(self, scn, res):
        return {"sub": scn["sub"], "arrivals": [[t, h[:40]] for t, h in scn["arrivals"][:5]],
                "n_arrivals": len(scn["arrivals"]), "end": scn["end"], "end_at": scn["end_at"],
                "cut": scn["draws"]["cut"][:6], "info": res.get("info"), "violations": res["viol"][:2]}

    def valid(self, scn):
        return True


LANE = C17Lane()
