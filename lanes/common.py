"""Shared plumbing for the lanes: scenario -> kernel + fakes, swarm configuration."""
import random

from sim import shims
from sim.firmware import Draws, Firmware, Link
from sim.kernel import Kernel


def rng_for(seed, run, stream):
    """Independent PRNG streams by string seeding (SHA-512 based; hash-seed independent)."""
    return random.Random("%s/%s/%s" % (seed, run, stream))


def lat_mixture(r, n, fast=False):
    out = []
    for _ in range(n):
        u = r.random()
        if fast:
            out.append(round(r.uniform(0.0, 0.004), 6))
        elif u < 0.70:
            out.append(round(r.uniform(0.0, 0.02), 6))
        elif u < 0.95:
            out.append(round(r.uniform(0.02, 0.4), 6))
        else:
            out.append(round(r.uniform(0.4, 3.0), 6))
    return out


def gen_sched(r, seed_tag, est_steps=4000, victims=("read", "send", "print", "main")):
    """Swarm-style choice of scheduling policy and stall profile for one run."""
    u = r.random()
    s = {"seed": seed_tag}
    if u < 0.22:
        # race-directed: rare pre-emption elsewhere, frequent at statements touching shared state
        s["policy"] = "hot"
        s["p"] = r.choice([0.0, 0.01, 0.03])
        s["p_hot"] = r.choice([0.2, 0.5, 0.8])
        s["pp"] = r.choice([0.1, 0.3, 0.6])
        s["p_stall"] = r.choice([0.0, 0.15, 0.4])
        s["stall_max"] = r.choice([0.002, 0.05, 0.15, 0.4])
        return s
    if u < 0.70:
        s["policy"] = "random"
        s["p"] = r.choice([0.0, 0.01, 0.05, 0.2, 0.5])
        s["pp"] = r.choice([0.1, 0.3, 0.6])
    elif u < 0.88:
        s["policy"] = "prio"
        s["d"] = r.choice([1, 2, 3])
        s["est_steps"] = est_steps
    else:
        s["policy"] = "prio"
        s["d"] = 0
        s["victim"] = r.choice(list(victims))
    s["p_stall"] = r.choice([0.0, 0.0, 0.05, 0.2])
    s["stall_max"] = r.choice([0.002, 0.15, 0.4, 0.4, 2.5])      # 2.5 s: a thread wedged for a while
    if s["stall_max"] > 1.0:
        # long stalls must stay rare or the run crawls (and looks like a livelock)
        s["p_stall"] = min(s["p_stall"], 0.05)
        if s.get("policy") == "random":
            s["p"] = min(s.get("p", 0.05), 0.05)
    return s


def gen_draws(r, fast_frac=0.2):
    """Materialised link/firmware timing draws (cyclic lists, see firmware.Draws)."""
    fast = r.random() < fast_frac
    gap = r.choice([0.0, 0.0005, 0.003, 0.02])
    d = {
        "lat": lat_mixture(r, 48, fast),
        "gap": [round(r.uniform(0, gap), 6) for _ in range(32)] if gap else [],
        "txd": [round(r.uniform(0, 0.002), 6) for _ in range(16)],
    }
    return d


def build(scn, guide=None, max_steps=150_000, max_time=None):
    max_steps = scn.get("max_steps", max_steps)
    draws = Draws(scn.get("draws"))
    lat = scn.get("draws", {}).get("lat") or [0.0]
    if max_time is None:
        max_time = (120.0 + 40.0 * max(lat) * 8 + 3.0 * sum(lat) + 3.0 * sum((scn.get("slow") or {}).values())
                    + 4.0 * sum((scn.get("draws") or {}).get("wblock") or [0]))
    # idle polling of the read/send threads and of a waiting write() costs about 125 traced lines
    # per virtual second: the step cap has to grow with the time the scenario plans to wait
    planned = sum((scn.get("slow") or {}).values()) + sum((scn.get("draws") or {}).get("wblock") or [0])
    max_steps += int(200 * min(planned, 3000.0))
    k = Kernel(scn["sched"], guide=guide, max_steps=max_steps, max_time=max_time)
    fw = Firmware(k, scn.get("cfg", {}), draws)
    link = Link(k, fw, draws, corrupt={int(a): b for a, b in (scn.get("corrupt") or {}).items()},
                corrupt_m110=bool(scn.get("corrupt_m110")))
    env = {"k": k, "fw": fw, "link": link, "draws": draws}
    shims.install(k, env)
    return k, env


def stats_of(k):
    return {
        "steps": k.steps, "sp": k.sp, "switches": k.switches, "stalls": k.nstalls,
        "vtime": round(k.now, 6), "threads": len(k.threads), "events": k.seq,
        "abort": k.abort_reason,
    }


def finish(k, scn, viol, extra=None):
    res = {
        "viol": viol,
        "digest": k.digest(),
        "sched_digest": k.sched_digest(),
        "decisions": k.decisions,
        "stats": stats_of(k),
        "probes": dict(k.probes),
        "pairs": sorted(k.sw_pairs),
        "locs": dict(k.sw_locs),
    }
    if extra:
        res.update(extra)
    return res


def quiesce(k, env, cap=600.0, extra=0.0):
    """Block the calling (harness) thread until the line is quiet *and the host has caught up*.

    A fixed sleep is not enough: injected thread stalls can delay the read thread - or the
    start-up print thread that still owes the final M110 - for longer than any constant.
    Quiet means: nothing in flight on the link, nothing scheduled in the firmware, no unread
    bytes in the port, the read thread has had a read time out since the last delivery (it only
    reads again after acting on the previous line), no print thread alive, and the send thread
    (if any) has seen its queue empty since the last put.
    """
    fw, link = env["fw"], env["link"]
    t0 = k.now
    while k.now - t0 < cap:
        if k.now > 0.7 * (k.max_time + min(k.stall_total, 1000.0)):
            break_unsettled = True       # never run the kernel into its own time cap while waiting
            k.probe("quiesce.cap_reached")
            k.unsettled = True
            return k.now - t0
        k.sleep(0.25)
        port = env.get("port")
        unread = bool(getattr(port, "rxq", None)) or bool(getattr(port, "rxbuf", None))
        alive = [t for t in k.threads if t.state != "D"]
        printing = any(t.name.startswith("print") for t in alive)
        reader = any(t.name.startswith("read") for t in alive)
        sender = any(t.name.startswith("send") for t in alive)
        read_ok = (not reader) or getattr(port, "quiet_reads", 0) >= 1
        queues = getattr(k, "queues", [])
        live = [q for q in queues if q.consumer is not None and q.consumer.state != "D"]
        send_ok = all(not q.q for q in queues) and all(q.quiet_gets >= 1 for q in live)
        if (fw.pending == 0 and link.inflight == 0 and getattr(port, "inflight", 0) == 0 and not unread
                and not printing and read_ok and send_ok):
            break
    else:
        k.probe("quiesce.cap_reached")
        k.unsettled = True      # the lane treats such a run as inconclusive
    if extra:
        k.sleep(extra)
    return k.now - t0
