#!/bin/bash
# Re-confirm every seeded change against /repo HEAD and refresh its meta.json (keeps the hand-written fields)
cd /verif
for d in seeded/*/; do
  id=$(basename $d); prop=${id%%-*}
  /venv/bin/python - "$id" "$prop" "$@" <<'PY'
import json, subprocess, sys
id_, prop = sys.argv[1], sys.argv[2]
extra = sys.argv[3:]
p = "/verif/seeded/%s/meta.json" % id_
old = json.load(open(p))
out = subprocess.run(["/verif/tools/eval_seeded.py", "/verif/seeded/" + id_, prop] + extra, capture_output=True, text=True).stdout
rep = json.loads(out[out.index("{"):out.rindex("}") + 1])
old["confirmed"] = rep
json.dump(old, open(p, "w"), indent=1)
print(id_, "detected" if rep.get("detected") else "MISSED", "demo(with/without)=%s/%s" % (rep.get("demo_with_patch_rc"), rep.get("demo_without_patch_rc")), "tests_rc=%s" % rep.get("tests_with_patch_rc"), "applies=%s" % rep.get("patch_applies"))
PY
done
