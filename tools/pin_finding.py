#!/venv/bin/python
"""Search a lane for the first run showing violation class CLS, minimise it and pin it
as findings/<PROP>-<ID>.json.  Usage: pin_finding.py PROP SUB CLS ID [max_runs]"""
import json
import os
import sys

ROOT = os.path.dirname(os.path.dirname(os.path.abspath(__file__)))
sys.path.insert(0, ROOT)
import importlib
from sim import runner

prop, sub, cls, fid = sys.argv[1:5]
maxruns = int(sys.argv[5]) if len(sys.argv) > 5 else 3000
lane = importlib.import_module("lanes." + prop.lower()).LANE
seed = int(os.environ.get("VERIF_SEED", "20261004"))
for run in range(maxruns):
    scn = lane.gen(seed, run, sub, "quick")
    res = lane.execute(scn)
    if runner.shows(res, cls):
        break
else:
    sys.exit("not found")
ms, md, n = runner.minimise(lane, scn, res["decisions"], cls)
res = lane.execute(ms, guide=md)
doc = {"property": prop, "seed": seed, "run": run, "scenario": ms, "decisions": md,
       "expect": {"classes": runner.vclasses(res), "digest": res["digest"], "viol": res["viol"][:6],
                  "findings": res.get("findings", [])}}
path = os.path.join(ROOT, "findings", "%s-%s.json" % (prop, fid))
json.dump(doc, open(path, "w"), indent=1, sort_keys=True, default=str)
print("pinned", path, doc["expect"]["classes"], doc["expect"]["findings"], "run", run)
