#!/venv/bin/python
"""Make a scratch copy of /repo/gscrib with one textual mutation applied and run a check on it.
usage: mutate.py <file-relative-to-gscrib> <old> <new> -- <check args...>
The scratch copy lives under $TMPDIR and is removed afterwards."""
import os, shutil, subprocess, sys, tempfile
ROOT = os.path.dirname(os.path.dirname(os.path.abspath(__file__)))
i = sys.argv.index("--")
rel, old, new = sys.argv[1:4]
d = tempfile.mkdtemp(prefix="gscrib-mut-")
try:
    shutil.copytree("/repo/gscrib", os.path.join(d, "gscrib"))
    p = os.path.join(d, "gscrib", rel)
    s = open(p).read()
    old = old.encode().decode("unicode_escape"); new = new.encode().decode("unicode_escape")
    if s.count(old) < 1:
        sys.exit("pattern not found")
    open(p, "w").write(s.replace(old, new, 1))
    env = dict(os.environ, VERIF_REPO=d)
    rc = subprocess.call([os.path.join(ROOT, "check")] + sys.argv[i + 1:], env=env)
    print("mutant rc=%d" % rc)
finally:
    shutil.rmtree(d, ignore_errors=True)
