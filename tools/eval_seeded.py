#!/venv/bin/python
"""Confirm a seeded change and run a check against it.

usage: eval_seeded.py <src-dir with patch.diff, demo.py> <PROP> [--keep-as ID] [--scale S] [--tier quick|thorough] [--skip-tests]
Uses a scratch git worktree of /repo under /tmp (removed afterwards); /repo itself is not touched.
"""
import json, os, shutil, subprocess, sys, time
ROOT = os.path.dirname(os.path.dirname(os.path.abspath(__file__)))
src, prop = sys.argv[1], sys.argv[2]
keep = sys.argv[sys.argv.index("--keep-as") + 1] if "--keep-as" in sys.argv else None
scale = sys.argv[sys.argv.index("--scale") + 1] if "--scale" in sys.argv else "1"
skip_tests = "--skip-tests" in sys.argv
tier = sys.argv[sys.argv.index("--tier") + 1] if "--tier" in sys.argv else "quick"
wt = "/tmp/wt-eval-%d" % os.getpid()
PY = "/venv/bin/python"

def sh(cmd, cwd=None, env=None, timeout=1800):
    p = subprocess.run(cmd, shell=True, cwd=cwd, env=env, capture_output=True, text=True, timeout=timeout)
    return p.returncode, (p.stdout + p.stderr)

rep = {"property": prop, "source": src}
subprocess.check_call(["git", "-C", "/repo", "worktree", "add", "-q", wt, "HEAD"])
try:
    demo = os.path.join(src, "demo.py")
    rc0, out0 = sh("%s %s" % (PY, demo), cwd=wt, timeout=600)
    rep["demo_without_patch_rc"] = rc0
    rc, out = sh("git apply --check %s && git apply %s" % (os.path.join(src, "patch.diff"), os.path.join(src, "patch.diff")), cwd=wt)
    rep["patch_applies"] = rc == 0
    if rc != 0:
        rep["apply_error"] = out[-400:]
    else:
        rc1, out1 = sh("%s %s" % (PY, demo), cwd=wt, timeout=600)
        rep["demo_with_patch_rc"] = rc1
        rep["demo_with_patch_tail"] = out1[-300:]
        if not skip_tests:
            rct, outt = sh("%s -m pytest -q -p no:cacheprovider --timeout=900 -x --deselect tests/test_file_writer.py::test_write_to_invalid_path --deselect tests/test_printrun_core.py::TestConnect::test_bad_ports" % PY, cwd=wt, timeout=1800)
            rep["tests_with_patch_rc"] = rct
            rep["tests_tail"] = outt.strip().splitlines()[-1] if outt.strip() else ""
        env = dict(os.environ, VERIF_REPO=wt, VERIF_SCALE=scale)
        t0 = time.time()
        rcc, outc = sh("%s/check %s --tier %s --no-evidence --no-selftest" % (ROOT, prop, tier), cwd=ROOT, env=env, timeout=3000)
        rep["check_rc"] = rcc
        rep["check_wall_s"] = round(time.time() - t0, 1)
        rep["check_lines"] = [l[:200] for l in outc.splitlines() if l.startswith(("VIOLATION", "SUMMARY", "HARNESS"))][:6]
        rep["detected"] = rcc == 1
finally:
    subprocess.call(["git", "-C", "/repo", "worktree", "remove", "--force", wt])
print(json.dumps(rep, indent=1))
if keep:
    dst = os.path.join(ROOT, "seeded", keep)
    os.makedirs(dst, exist_ok=True)
    for f in ("patch.diff", "demo.py", "notes.md"):
        if os.path.exists(os.path.join(src, f)):
            shutil.copy(os.path.join(src, f), os.path.join(dst, f))
    meta = {"id": keep, "breaks_property": prop, "confirmed": rep,
            "needs_to_manifest": "see notes.md", "ran": "tools/eval_seeded.py %s %s" % (src, prop)}
    json.dump(meta, open(os.path.join(dst, "meta.json"), "w"), indent=1)
