#!/bin/bash
# usage: replay_on_old.sh <commit-ish of /repo> <PROP> <replay file>   - replay a pinned history against an older tree
set -e
wt=/tmp/wt-old-$$
git -C /repo worktree add -q $wt "$1"
trap "git -C /repo worktree remove --force $wt" EXIT
VERIF_REPO=$wt /verif/check "$2" --replay "$3" || true
