#!/venv/bin/python
"""Every pinned replay of a *fixed* finding must still fail on the tree just before its fix
commit and pass on the current tree; every pinned replay of an *open* finding must still be
attributed on the current tree.  Run after any change to the machinery's scenario semantics."""
import json, os, subprocess, sys
ROOT = os.path.dirname(os.path.dirname(os.path.abspath(__file__)))
doc = json.load(open(os.path.join(ROOT, "known_findings.json")))
bad = 0
for f in doc["findings"]:
    rp = os.path.join(ROOT, f["replay"])
    if f["status"] == "fixed":
        wt = "/tmp/wt-pin-%d" % os.getpid()
        subprocess.check_call(["git", "-C", "/repo", "worktree", "add", "-q", wt, f["commit"] + "~1"])
        try:
            p = subprocess.run([os.path.join(ROOT, "check"), f["property"], "--replay", rp, "--quiet"],
                               env=dict(os.environ, VERIF_REPO=wt), capture_output=True, text=True)
        finally:
            subprocess.call(["git", "-C", "/repo", "worktree", "remove", "--force", wt])
        old_fails = p.returncode == 1
        p2 = subprocess.run([os.path.join(ROOT, "check"), f["property"], "--replay", rp, "--quiet"],
                            capture_output=True, text=True)
        new_passes = p2.returncode == 0
        print("%s %s fixed: fails-before-fix=%s passes-now=%s" % (f["property"], f["id"], old_fails, new_passes))
        bad += (not old_fails) + (not new_passes)
    else:
        p = subprocess.run([os.path.join(ROOT, "check"), f["property"], "--replay", rp, "--quiet"],
                           capture_output=True, text=True)
        attributed = ("'%s'" % f["id"]) in p.stdout
        print("%s %s open: replay rc=%s attributed=%s" % (f["property"], f["id"], p.returncode, attributed))
        bad += (p.returncode != 0) + (not attributed)
sys.exit(1 if bad else 0)
