#!/venv/bin/python
"""Print the DESIGN.md 12.3 table from /verif/seeded/*/meta.json."""
import json, glob, os
ROOT = os.path.dirname(os.path.dirname(os.path.abspath(__file__)))
print("| id | breaks | what it changes | needs, to manifest | caught by (quick tier) |")
print("|----|----|----|----|----|")
for p in sorted(glob.glob(os.path.join(ROOT, "seeded", "*", "meta.json"))):
    m = json.load(open(p))
    c = m.get("confirmed", {})
    lines = [l for l in c.get("check_lines", []) if l.startswith("VIOLATION")]
    classes = sorted({x for l in lines for x in l.split("classes=")[-1].split(",") if "classes=" in l})
    det = ("`./check %s`: %s" % (m["breaks_property"], ", ".join(classes[:5]))) if c.get("detected") else (
        "quick tier: only sometimes; **thorough tier**: yes" if m.get("thorough_tier") else "**missed**")
    if m.get("also_caught_by"):
        det += "; also " + m["also_caught_by"]
    print("| %s | %s | %s | %s | %s |" % (m["id"], m["breaks_property"], m.get("what_it_changes", ""), m.get("needs_to_manifest", ""), det))
