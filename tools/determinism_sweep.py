#!/venv/bin/python
"""Large-sample determinism proof: many VERIF_SEED values, every sub-lane, the first N run
indices each executed (a) in-process, (b) in a 16-worker forked batch, (c) in a 3-worker
batch, (d) in a fresh interpreter under another PYTHONHASHSEED; all four digest lists must
be identical.  usage: determinism_sweep.py [N=24] [seeds=101..108]"""
import importlib, json, os, subprocess, sys, time
ROOT = os.path.dirname(os.path.dirname(os.path.abspath(__file__)))
sys.path.insert(0, ROOT)
from sim import runner, shims
N = int(sys.argv[1]) if len(sys.argv) > 1 else 24
seeds = [int(x) for x in sys.argv[2].split(",")] if len(sys.argv) > 2 else list(range(101, 109))
shims.audit()
total = bad = 0
t0 = time.time()
for prop in ("C14", "C15", "C16", "C17", "C18"):
    lane = importlib.import_module("lanes." + prop.lower()).LANE
    for seed in seeds:
        for sub, _ in lane.subs("quick"):
            a = runner.digests_for(lane, seed, "quick", sub, range(N))
            res = {}
            for jobs in (16, 3):
                agg, errs = runner.run_batch(lane, seed, "quick", sub, N, jobs, 600)
                res[jobs] = [agg["first_digests"].get(i) for i in range(N)]
                if errs:
                    print("ERR", prop, seed, sub, errs[:1])
            env = dict(os.environ, PYTHONHASHSEED=str(seed * 7 % 1000 + 1), VERIF_SEED=str(seed))
            p = subprocess.run([sys.executable, os.path.join(ROOT, "check"), prop, "--digests", sub, str(N)],
                               env=env, capture_output=True, text=True, timeout=1200)
            d = [l.split(" ", 1)[1] for l in p.stdout.splitlines() if l.startswith("DIGEST ")]
            total += 3 * N
            for name, other in (("jobs16", res[16]), ("jobs3", res[3]), ("fresh", d)):
                if other != a:
                    bad += 1
                    diff = [i for i, (x, y) in enumerate(zip(a, other)) if x != y]
                    print("MISMATCH", prop, "seed", seed, sub, name, "runs", diff[:5], "len", len(other))
print(json.dumps({"comparisons": total, "mismatching_lists": bad, "seeds": seeds, "runs_per_sublane": N,
                  "wall_s": round(time.time() - t0, 1)}))
sys.exit(1 if bad else 0)
