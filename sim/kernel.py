"""Seeded baton-passing scheduler for real threads, with a virtual clock.

Every simulated thread is a real OS thread, but only the holder of the single
baton runs; all others are parked on a private semaphore.  The kernel is plain
code executed by whichever thread holds the baton at a *scheduling point*:

  * every intercepted primitive (see shims.py / the fakes), and
  * every source line of the files listed in ``trace_files`` (sys.settrace).

Virtual time advances only when nothing is runnable.  All scheduling choices
come from one PRNG stream (record mode) or from an explicit decision list
(guided mode, used for replay and minimisation).  Decisions are recorded as
deviations from the default policy "keep running; when forced to switch take
the lowest thread id", keyed by the global scheduling-point counter ``sp``.

Logging (``ev``) never draws from a PRNG and never reads a real clock.
"""
import hashlib
import heapq
import os
import random
import sys
import threading as _th

RUNNABLE, BLOCKED, DONE, NEW = "R", "B", "D", "N"


class SimAbort(BaseException):
    """Raised inside simulated threads to unwind them when a run is aborted."""


class HarnessError(Exception):
    """A defect of the verification machinery itself (never a VIOLATION)."""


class SimThread:
    def __init__(self, kernel, target=None, name=None, args=(), kwargs=None, daemon=None):
        self.k = kernel
        self.target = target
        self.args = args
        self.kwargs = kwargs or {}
        self.name = name or "T?"
        self.state = NEW
        self.go = _th.Semaphore(0)
        self.pred = None
        self.deadline = None
        self.why = None
        self.real = None
        self.tid = None
        self.exc = None
        self.daemon = True
        self.loc = "-"
        self.prio = 0.0

    # ---- threading.Thread API subset used by the code under test ----
    def start(self):
        k = self.k
        k.check_abort()
        if self.state != NEW:
            raise RuntimeError("threads can only be started once")
        k._register(self)
        self.real = _th.Thread(target=self._boot, name="sim:" + self.name, daemon=True)
        self.real.start()
        k.ev("start", self.label)
        k.point("thread.start")

    @property
    def label(self):
        return "%s#%d" % (self.name, self.tid)

    @property
    def ident(self):
        return self.tid

    def _boot(self):
        k = self.k
        self.go.acquire()
        k.by_ident[_th.get_ident()] = self
        try:
            if k.aborting:
                raise SimAbort()
            sys.settrace(k._gtrace)
            self.target(*self.args, **self.kwargs)
        except SimAbort:
            pass
        except BaseException as e:  # uncaught exception inside a simulated thread
            self.exc = e
            k.ev("thread-died", self.label, type(e).__name__, str(e)[:120])
        finally:
            sys.settrace(None)
            self.state = DONE
            k.ev("exit", self.label)
            k.by_ident.pop(_th.get_ident(), None)
            k._thread_finished(self)

    def join(self, timeout=None):
        k = self.k
        if self.state == NEW:
            raise RuntimeError("cannot join thread before it is started")
        if k.me() is self:
            raise RuntimeError("cannot join current thread")
        k.block(lambda: self.state == DONE, timeout, "join:" + self.name)

    def is_alive(self):
        return self.state in (RUNNABLE, BLOCKED)


_HOT_RE = None
_hot_cache = {}


def hot_lines(files):
    """(file, line) pairs whose source text reads or writes state shared between threads."""
    import re
    global _HOT_RE
    if _HOT_RE is None:
        _HOT_RE = re.compile(r"self\.(clear|resendfrom|lineno|printing|online|sentlines|queueindex|priqueue|"
                             r"paused|mainqueue|stop_read_thread|stop_send_thread|print_thread|send_thread|"
                             r"_ack_event|_online_event|_device_error|_read_buffer|_current_params|"
                             r"_reported_params|_is_connected|writefailures|layer_idxs|line_idxs|append_layer|all_layers)\b")
    out = set()
    for f in files:
        if f not in _hot_cache:
            try:
                with open(f) as fh:
                    _hot_cache[f] = {(f, i + 1) for i, l in enumerate(fh) if _HOT_RE.search(l)}
            except OSError:
                _hot_cache[f] = set()
        out |= _hot_cache[f]
    return out


class Kernel:
    """One kernel per simulated run."""

    def __init__(self, sched, guide=None, trace_files=(), max_steps=150_000,
                 max_time=900.0, keep_log=True):
        self.sched = dict(sched)
        self.rng = random.Random("sched/%s" % (self.sched.get("seed", 0),))
        self.policy = self.sched.get("policy", "random")
        self.p_line = float(self.sched.get("p", 0.05))
        self.p_prim = float(self.sched.get("pp", max(self.p_line, 0.25)))
        self.p_stall = float(self.sched.get("p_stall", 0.0))
        self.stall_max = float(self.sched.get("stall_max", 0.15))
        self.victim = self.sched.get("victim")  # thread name prefix (starve policy)
        self.hot = None
        self.p_hot = float(self.sched.get("p_hot", 0.5))
        if self.policy == "hot":
            self.hot = hot_lines(trace_files) if trace_files else set()
        self.pct_points = set()
        if self.policy == "prio":
            est = int(self.sched.get("est_steps", 4000))
            for _ in range(int(self.sched.get("d", 1))):
                self.pct_points.add(self.rng.randrange(1, max(2, est)))
        self.guide = None
        if guide is not None:
            self.guide = {}
            for d in guide:
                self.guide[int(d[0])] = (d[1], d[2])
        self.decisions = []
        self.now = 0.0
        self.seq = 0
        self.tseq = 0
        self.sp = 0
        self.steps = 0
        self.switches = 0
        self.nstalls = 0
        self.stall_total = 0.0
        self.threads = []
        self.by_ident = {}
        self.timers = []
        self.log = []
        self.keep_log = keep_log
        self.aborting = False
        self.abort_reason = None
        self.finished = _th.Event()
        self.max_steps = max_steps
        self.max_time = max_time
        self.trace_files = set(trace_files)
        self.current = None
        self.nopreempt = 0
        self.h = hashlib.sha256()
        self.sw_h = hashlib.sha256()
        self.sw_pairs = set()
        self.sw_locs = {}
        self.probes = {}
        self.line_hook = None  # optional callable(frame) for rare-branch probes

    # ------------------------------------------------------------ logging
    def ev(self, *a):
        if self.aborting:
            # threads unwind concurrently once a run is aborted: their last events would be
            # logged in an order the kernel no longer decides, so they are not part of the log
            return self.seq
        self.seq += 1
        rec = (self.seq, round(self.now, 6)) + a
        self.h.update(repr(rec).encode())
        if self.keep_log:
            self.log.append(rec)
        return self.seq

    def probe(self, name, n=1):
        self.probes[name] = self.probes.get(name, 0) + n

    def digest(self):
        return self.h.hexdigest()[:20]

    def sched_digest(self):
        return self.sw_h.hexdigest()[:16]

    # ------------------------------------------------------------- timers
    def after(self, delay, fn, *a):
        self.tseq += 1
        heapq.heappush(self.timers, (self.now + max(0.0, delay), self.tseq, fn, a))

    def at(self, when, fn, *a):
        self.tseq += 1
        heapq.heappush(self.timers, (max(self.now, when), self.tseq, fn, a))

    # ------------------------------------------------------------ threads
    def me(self):
        return self.by_ident.get(_th.get_ident())

    def check_abort(self):
        if self.aborting:
            raise SimAbort()

    def _register(self, t):
        t.tid = len(self.threads)
        t.state = RUNNABLE
        t.prio = self.rng.random() if self.guide is None else 0.0
        if self.victim and t.name.startswith(self.victim):
            t.prio = -1.0
        self.threads.append(t)

    def Thread(self, group=None, target=None, name=None, args=(), kwargs=None, daemon=None):
        return SimThread(self, target, name, args, kwargs, daemon)

    def current_thread(self):
        return self.me()

    # --------------------------------------------------------- scheduling
    def _runnable(self):
        out = []
        now = self.now
        for t in self.threads:
            st = t.state
            if st == RUNNABLE:
                out.append(t)
            elif st == BLOCKED:
                if (t.deadline is not None and t.deadline <= now) or (t.pred is not None and t.pred()):
                    out.append(t)
        return out

    def _advance(self):
        """Nothing is runnable: jump the clock. False if nothing can ever happen."""
        nxt = None
        for t in self.threads:
            if t.state == BLOCKED and t.deadline is not None:
                nxt = t.deadline if nxt is None else min(nxt, t.deadline)
        if self.timers:
            nxt = self.timers[0][0] if nxt is None else min(nxt, self.timers[0][0])
        if nxt is None:
            return False
        if nxt > self.max_time + min(self.stall_total, 1000.0):
            self.abort_reason = self.abort_reason or "time-cap"
            return False
        if nxt > self.now:
            self.now = nxt
        while self.timers and self.timers[0][0] <= self.now:
            _, _, fn, a = heapq.heappop(self.timers)
            fn(*a)
        return True

    def _choose_forced(self, cands):
        """Pick among runnable candidates when the current thread cannot go on."""
        self.sp += 1
        default = cands[0]
        if len(cands) == 1:
            return default
        if self.guide is not None:
            d = self.guide.get(self.sp)
            if d is not None and d[0] == "s":
                for t in cands:
                    if t.tid == d[1]:
                        return t
            return default
        if self.policy == "prio":
            pick = max(cands, key=lambda t: (t.prio, -t.tid))
        else:
            pick = cands[self.rng.randrange(len(cands))]
        if pick is not default:
            self.decisions.append([self.sp, "s", pick.tid])
        return pick

    def _pick_forced(self, exclude=None):
        while True:
            r = self._runnable()
            if exclude is not None:
                r = [t for t in r if t is not exclude]
            if r:
                return self._choose_forced(r)
            if not self._advance():
                return None

    def _where(self):
        f = sys._getframe(2)
        tf = self.trace_files
        while f is not None:
            if f.f_code.co_filename in tf:
                return "%s:%d" % (os.path.basename(f.f_code.co_filename), f.f_lineno)
            f = f.f_back
        return "-"

    def _handoff(self, me, nxt):
        self.switches += 1
        me.loc = self._where()
        self.sw_h.update(("%s@%s>%s@%s|" % (me.name, me.loc, nxt.name, nxt.loc)).encode())
        if len(self.sw_pairs) < 4096:
            self.sw_pairs.add((me.loc, nxt.loc))
        self.sw_locs[me.loc] = self.sw_locs.get(me.loc, 0) + 1
        self.current = nxt
        if nxt.state == BLOCKED:
            nxt.state = RUNNABLE
            nxt.pred = None
            nxt.deadline = None
        nxt.go.release()
        me.go.acquire()
        if self.aborting:
            raise SimAbort()

    def _switch_to(self, me, tid):
        for t in self._runnable():
            if t.tid == tid and t is not me:
                self._handoff(me, t)
                return True
        return False

    def _stall(self, dur):
        self.nstalls += 1
        # injected slowness must not be mistaken for a livelock: the caps grow with it
        self.stall_total += dur
        self.block(lambda: False, dur, "stall")

    def point(self, why=""):
        """Optional scheduling point at a primitive (current thread stays runnable)."""
        if self.aborting:
            raise SimAbort()
        self.sp += 1
        if self.nopreempt:
            return
        me = self.me()
        if me is None:
            return
        if self.guide is not None:
            d = self.guide.get(self.sp)
            if d is not None:
                self._apply(me, d)
            return
        if self.policy == "prio":
            self._prio_point(me)
            return
        if self.rng.random() < self.p_prim:
            self._random_switch(me)

    def _apply(self, me, d):
        if d[0] == "s":
            self._switch_to(me, d[1])
        elif d[0] == "z":
            self._stall(d[1])

    def _random_switch(self, me):
        sp = self.sp
        if self.p_stall and self.rng.random() < self.p_stall:
            dur = round(self.rng.uniform(0.0, self.stall_max), 6)
            self.decisions.append([sp, "z", dur])
            self._stall(dur)
            return
        r = self._runnable()
        if len(r) > 1:
            pick = r[self.rng.randrange(len(r))]
            if pick is not me:
                self.decisions.append([sp, "s", pick.tid])
                self._handoff(me, pick)

    def _prio_point(self, me):
        sp = self.sp
        if sp in self.pct_points:
            me.prio = -2.0 - len(self.decisions) * 1e-6
        r = self._runnable()
        if len(r) > 1:
            pick = max(r, key=lambda t: (t.prio, -t.tid))
            if pick is not me:
                self.decisions.append([sp, "s", pick.tid])
                self._handoff(me, pick)

    def block(self, pred, timeout, why):
        """Block the current thread until pred() holds or the timeout expires."""
        if self.aborting:
            raise SimAbort()
        me = self.me()
        if me is None:
            raise HarnessError("kernel.block called from a non-simulated thread (%s)" % why)
        if pred():
            self.point(why)
            return
        me.state = BLOCKED
        me.pred = pred
        me.why = why
        me.deadline = None if timeout is None else self.now + max(0.0, timeout)
        nxt = self._pick_forced()
        if nxt is None:
            self._deadlock(me, why)
        if nxt is me:
            me.state = RUNNABLE
            me.pred = None
            me.deadline = None
            return
        self._handoff(me, nxt)

    def sleep(self, d):
        self.block(lambda: False, d, "sleep")

    def _deadlock(self, me, why):
        self.abort_reason = self.abort_reason or "deadlock"
        self.ev("DEADLOCK", me.label, why,
                [(t.label, t.state, t.why) for t in self.threads if t.state != DONE])
        self.abort()
        raise SimAbort()

    def abort(self, reason=None):
        if reason and not self.abort_reason:
            self.abort_reason = reason
        self.aborting = True
        for t in self.threads:
            if t.state in (BLOCKED, RUNNABLE, NEW):
                t.go.release()

    def _thread_finished(self, t):
        if all(x.state == DONE for x in self.threads):
            self.finished.set()
            return
        if self.aborting:
            return
        nxt = self._pick_forced(exclude=t)
        if nxt is None:
            self.abort_reason = self.abort_reason or "deadlock"
            self.ev("DEADLOCK-at-exit", t.label,
                    [(x.label, x.state, x.why) for x in self.threads if x.state != DONE])
            self.abort()
            return
        self.switches += 1
        self.sw_h.update(("%s@exit>%s@%s|" % (t.name, nxt.name, nxt.loc)).encode())
        self.current = nxt
        if nxt.state == BLOCKED:
            nxt.state = RUNNABLE
            nxt.pred = None
            nxt.deadline = None
        nxt.go.release()

    # ------------------------------------------------------------ tracing
    def _gtrace(self, frame, event, arg):
        if frame.f_code.co_filename in self.trace_files:
            return self._ltrace
        return None

    def _ltrace(self, frame, event, arg):
        if event == "line":
            self.steps += 1
            self.sp += 1
            if self.aborting:
                raise SimAbort()
            if self.steps > self.max_steps + 150 * min(self.stall_total, 1000.0):
                self.abort("step-cap")
                raise SimAbort()
            if self.line_hook is not None:
                self.line_hook(frame)
            if self.nopreempt:
                return self._ltrace
            if self.guide is not None:
                d = self.guide.get(self.sp)
                if d is not None:
                    self._apply(self.me(), d)
            elif self.policy == "prio":
                if self.sp in self.pct_points:
                    self._prio_point(self.me())
                elif self.p_stall and self.rng.random() < self.p_stall * 0.02:
                    dur = round(self.rng.uniform(0.0, self.stall_max), 6)
                    self.decisions.append([self.sp, "z", dur])
                    self._stall(dur)
            elif self.hot is not None:
                # race-directed: pre-empt/stall mostly at statements that touch shared state
                ph = self.p_hot if (frame.f_code.co_filename, frame.f_lineno) in self.hot else self.p_line
                if self.rng.random() < ph:
                    self._random_switch(self.me())
            elif self.rng.random() < self.p_line:
                self._random_switch(self.me())
        return self._ltrace

    # ---------------------------------------------------------------- run
    def run(self, main, wall_timeout=30.0):
        t = SimThread(self, main, "main")
        self._register(t)
        t.real = _th.Thread(target=t._boot, name="sim:main", daemon=True)
        t.real.start()
        self.current = t
        t.go.release()
        ok = self.finished.wait(wall_timeout)
        if not ok:
            self.abort_reason = "wall-timeout"
            self.abort()
            self.finished.wait(5)
        for th in self.threads:
            if th.real is not None:
                th.real.join(2)
        return t


# ------------------------------------------------- primitives bound to a kernel
class SimEvent:
    def __init__(self, k):
        self.k = k
        self._f = False
        self.eid = k.nevents = getattr(k, "nevents", 0) + 1
        self.hist = []   # (op, global event seq) - observation only

    def set(self):
        self.k.check_abort()
        self._f = True
        self.hist.append(("set", self.k.ev("evt", self.eid, "set")))
        self.k.point("ev.set")

    def clear(self):
        self.k.check_abort()
        self._f = False
        self.hist.append(("clear", self.k.ev("evt", self.eid, "clear")))
        self.k.point("ev.clear")

    def is_set(self):
        return self._f

    isSet = is_set

    def wait(self, timeout=None):
        self.k.block(lambda: self._f, timeout, "ev.wait")
        return self._f


class SimLock:
    def __init__(self, k):
        self.k = k
        self.owner = None

    def acquire(self, blocking=True, timeout=-1):
        if not blocking:
            self.k.check_abort()
            if self.owner is None:
                self.owner = self.k.me()
                return True
            return False
        self.k.block(lambda: self.owner is None,
                     None if timeout in (-1, None) else timeout, "lock")
        if self.owner is None:
            self.owner = self.k.me()
            return True
        return False

    def release(self):
        self.owner = None
        if not self.k.aborting:
            self.k.point("lock.release")

    def locked(self):
        return self.owner is not None

    def __enter__(self):
        self.acquire()
        return self

    def __exit__(self, *a):
        self.release()


class Shim:
    def __init__(self, **kw):
        self.__dict__.update(kw)
