"""Batch driver: seeded search over scenarios, determinism self-test, findings,
minimisation, replay files and evidence.

Exit codes: 0 property held on everything explored (KNOWN-FINDING lines possible),
1 VIOLATION (with replay file), 2 HARNESS-ERROR (never counts as a result).
"""
import argparse
import copy
import hashlib
import json
import multiprocessing as mp
import os
import queue as _queue
import subprocess
import sys
import time
import traceback

ROOT = os.path.dirname(os.path.dirname(os.path.abspath(__file__)))
REPLAYS = os.path.join(ROOT, "replays")
FINDINGS_FILE = os.path.join(ROOT, "known_findings.json")
PY = sys.executable


class Lane:
    """Interface every lane module adapts to (see lanes/*.py: LANE object)."""
    prop = None
    level = "exploration"
    technique = ""
    rule = ""
    assumptions = ()
    real_vs_stub = {}

    def subs(self, tier):            # -> list[(sub, nruns)]
        raise NotImplementedError

    def gen(self, seed, run, sub, tier):
        raise NotImplementedError

    def execute(self, scn, guide=None):
        raise NotImplementedError

    def nontrivial(self, scn, res):
        return True

    def valid(self, scn):
        """Is a (shrunk) scenario still inside this sub-lane's environment class?"""
        return True

    def sample(self, scn, res):
        return {"scenario": scn, "stats": res["stats"]}

    def extra_phases(self, seed, tier, jobs):   # -> (evaluations, violations, coverage-extras)
        return 0, [], {}


def jdump(o):
    return json.dumps(o, sort_keys=True, default=str)


def scn_hash(scn):
    return hashlib.sha256(jdump(scn).encode()).hexdigest()[:16]


def vclasses(res):
    return sorted({v["cls"] for v in res["viol"]})


def shows(res, want):
    """Does the result show violation class `want` (or 'finding:<id>' attribution)?"""
    if want.startswith("finding:"):
        return want[8:] in res.get("findings", []) and not res["viol"]
    return want in vclasses(res)


# ---------------------------------------------------------------- workers
def _worker(lane, seed, tier, sub, nruns, wid, nworkers, deadline, out):
    agg = new_agg()
    try:
        import faulthandler
        faulthandler.enable()
        run = wid
        while run < nruns and time.time() < deadline:
            scn = lane.gen(seed, run, sub, tier)
            t0 = time.time()
            res = lane.execute(scn)
            fold(agg, lane, scn, res, run, time.time() - t0)
            run += nworkers
        agg["last_run"] = run
        out.put(("done", wid, agg))
    except BaseException:
        out.put(("error", wid, traceback.format_exc()))


def new_agg():
    return {"runs": 0, "nontrivial": 0, "steps": 0, "switches": 0, "stalls": 0, "vtime": 0.0,
            "probes": {}, "digests": set(), "sched_digests": set(), "pairs": set(),
            "aborts": {}, "viol": [], "findings": {}, "samples": [], "run_wall": 0.0,
            "last_run": 0, "nviol": 0, "locs": {}, "first_digests": {}, "excused": {}}


def fold(agg, lane, scn, res, run, wall):
    agg["runs"] += 1
    st = res["stats"]
    agg["steps"] += st["steps"]
    agg["switches"] += st["switches"]
    agg["stalls"] += st["stalls"]
    agg["vtime"] += st["vtime"]
    agg["run_wall"] += wall
    agg["aborts"][str(st["abort"])] = agg["aborts"].get(str(st["abort"]), 0) + 1
    for kk, v in res["probes"].items():
        agg["probes"][kk] = agg["probes"].get(kk, 0) + v
    if lane.nontrivial(scn, res):
        agg["nontrivial"] += 1
        agg["digests"].add(res["digest"])
        agg["sched_digests"].add(res["sched_digest"])
    if len(agg["pairs"]) < 20000:
        agg["pairs"].update(tuple(p) for p in res.get("pairs", ()))
    for loc, n in res.get("locs", {}).items():
        agg["locs"][loc] = agg["locs"].get(loc, 0) + n
    if run < 64:
        agg["first_digests"][run] = "%s:%s:%s" % (scn_hash(scn), res["digest"], ",".join(vclasses(res)))
    for f in res.get("findings", ()):
        agg["findings"][f] = agg["findings"].get(f, 0) + 1
    for f in res.get("excused", ()):
        agg["excused"][f] = agg["excused"].get(f, 0) + 1
    if any(v["cls"] == "harness" for v in res["viol"]):
        # wall-clock kill or trip-wire: a defect of the machinery, never a result
        agg.setdefault("harness", []).append("run %s: %s" % (run, [v["detail"] for v in res["viol"]
                                                                if v["cls"] == "harness"][:1]))
    elif res["viol"]:
        agg["nviol"] += 1
        if len(agg["viol"]) < 6:
            agg["viol"].append({"run": run, "scn": scn, "decisions": res["decisions"],
                                "classes": vclasses(res), "viol": res["viol"][:4],
                                "digest": res["digest"]})
    if len(agg["samples"]) < 2 and lane.nontrivial(scn, res):
        agg["samples"].append(lane.sample(scn, res))


def merge(a, b):
    for kk in ("runs", "nontrivial", "steps", "switches", "stalls", "vtime", "run_wall", "nviol"):
        a[kk] += b[kk]
    for kk in ("probes", "aborts", "findings", "locs", "excused"):
        for x, v in b[kk].items():
            a[kk][x] = a[kk].get(x, 0) + v
    a["first_digests"].update(b["first_digests"])
    a.setdefault("harness", []).extend(b.get("harness", []))
    for kk in ("digests", "sched_digests", "pairs"):
        a[kk] |= b[kk]
    a["viol"].extend(b["viol"])
    a["samples"].extend(b["samples"])
    return a


def run_batch(lane, seed, tier, sub, nruns, jobs, budget_s):
    """Run indices 0..nruns-1 of one sub-lane on `jobs` forked workers."""
    ctx = mp.get_context("fork")
    out = ctx.Queue()
    deadline = time.time() + budget_s
    procs = []
    for wid in range(jobs):
        p = ctx.Process(target=_worker, args=(lane, seed, tier, sub, nruns, wid, jobs, deadline, out),
                        daemon=True)
        p.start()
        procs.append(p)
    agg = new_agg()
    got = 0
    errors = []
    hard = deadline + 90
    while got < jobs and time.time() < hard:
        try:
            kind, wid, payload = out.get(timeout=1.0)
        except _queue.Empty:
            if all(not p.is_alive() for p in procs) and out.empty():
                break
            continue
        got += 1
        if kind == "done":
            merge(agg, payload)
        else:
            errors.append(payload)
    for p in procs:
        p.join(0.2)
        if p.is_alive():
            p.terminate()
    if got < jobs:
        errors.append("%d worker(s) of sub-lane %s did not report (hang or crash)" % (jobs - got, sub))
    return agg, errors


# ------------------------------------------------------------ determinism
def digests_for(lane, seed, tier, sub, runs):
    out = []
    for run in runs:
        scn = lane.gen(seed, run, sub, tier)
        res = lane.execute(scn)
        out.append("%s:%s:%s" % (scn_hash(scn), res["digest"], ",".join(vclasses(res))))
    return out


def selftest_determinism(lane, seed, tier, n):
    """Same seeds twice in-process, once more in a fresh interpreter (other hash seed)."""
    problems = []
    ref = {}
    for sub, _ in lane.subs(tier):
        runs = list(range(n))
        a = digests_for(lane, seed, tier, sub, runs)
        ref[sub] = a
        b = digests_for(lane, seed, tier, sub, runs)
        if a != b:
            problems.append("in-process digests differ for sub-lane %s" % sub)
            continue
        env = dict(os.environ, PYTHONHASHSEED="12345", VERIF_SEED=str(seed))
        cmd = [PY, os.path.join(ROOT, "check"), lane.prop, "--digests", sub, str(n), "--tier", tier]
        try:
            p = subprocess.run(cmd, env=env, capture_output=True, text=True, timeout=600)
        except subprocess.TimeoutExpired:
            problems.append("fresh-interpreter digest run timed out (%s)" % sub)
            continue
        c = [l for l in p.stdout.splitlines() if l.startswith("DIGEST ")]
        c = [l.split(" ", 1)[1] for l in c]
        if p.returncode != 0 or c != a:
            problems.append("fresh-interpreter digests differ for sub-lane %s (rc=%s) %s"
                            % (sub, p.returncode, p.stderr[-300:]))
    return problems, ref


# ----------------------------------------------------------- minimisation
def reproduces(lane, scn, decisions, want_cls):
    res = lane.execute(scn, guide=decisions)
    return shows(res, want_cls), res


def minimise(lane, scn, decisions, want_cls, max_execs=700, max_wall=75.0, rescue=10):
    """Structure-aware delta debugging on (scenario, decision list).

    A candidate is first replayed under the current decision list (guided mode).  Decisions
    are keyed by scheduling-step numbers, so after an operation has been removed they may no
    longer line up; in that case up to `rescue` fresh seeded schedules are searched for the
    candidate and, if one of them shows the same violation class, its decision list is taken.
    """
    t0 = time.time()
    execs = [0]
    best = [copy.deepcopy(scn), [list(d) for d in decisions]]

    def out_of_budget():
        return execs[0] >= max_execs or time.time() - t0 > max_wall

    def attempt(cs, cd, search=False):
        if out_of_budget() or not lane.valid(cs):
            return False
        execs[0] += 1
        try:
            ok, _ = reproduces(lane, cs, cd, want_cls)
        except Exception:
            return False
        if ok:
            best[0], best[1] = cs, cd
            return True
        if search:
            base = str(cs.get("sched", {}).get("seed", "0")).split("/m")[0]
            for j in range(rescue):
                if out_of_budget():
                    return False
                execs[0] += 1
                c2 = copy.deepcopy(cs)
                c2["sched"]["seed"] = "%s/m%d" % (base, j)
                try:
                    res = lane.execute(c2)
                except Exception:
                    continue
                if shows(res, want_cls):
                    best[0], best[1] = c2, [list(d) for d in res["decisions"]]
                    return True
        return False

    def shrink_list(get, put, search=False):
        lst = list(get(best[0], best[1]))
        n = 2
        while lst:
            size = max(1, len(lst) // n)
            removed = False
            i = 0
            while i < len(lst):
                cand = lst[:i] + lst[i + size:]
                cs, cd = put(copy.deepcopy(best[0]), [list(d) for d in best[1]], cand)
                if attempt(cs, cd, search):
                    lst = list(get(best[0], best[1]))
                    removed = True
                else:
                    i += size
                if out_of_budget():
                    return
            if size == 1:
                if not removed:
                    break
            elif not removed:
                n *= 2

    # 1. ops, 2. faults, 3. replies/corruptions, 4. timing draws, 5. schedule decisions
    for key in ("ops", "faults", "job", "job2", "arrivals", "reports"):
        if isinstance(scn.get(key), list):
            shrink_list(lambda s, d, key=key: s[key],
                        lambda s, d, c, key=key: (dict(s, **{key: c}), d), search=True)
    for key in ("replies", "corrupt"):
        if isinstance(scn.get(key), dict):
            shrink_list(lambda s, d, key=key: sorted(s[key].items()),
                        lambda s, d, c, key=key: (dict(s, **{key: dict(c)}), d), search=True)
    for name in list((best[0].get("draws") or {}).keys()):
        cs = copy.deepcopy(best[0])
        cs["draws"][name] = []
        attempt(cs, [list(d) for d in best[1]], search=True)
    shrink_list(lambda s, d: d, lambda s, d, c: (s, c))
    if hasattr(lane, "shrink_more"):
        lane.shrink_more(best, attempt)
    return best[0], best[1], execs[0]


def guard_violations(lane, sub, stats):
    out = []
    runs = stats["runs"]
    if runs < 100:
        return out
    for (gsub, kind, tag), (max_frac, floor) in getattr(lane, "RATE_GUARDS", {}).items():
        if gsub != sub:
            continue
        n = stats[kind].get(tag, 0)
        if n > max(floor, max_frac * runs):
            out.append({"cls": "finding-rate-guard", "sub": sub, "kind": kind, "tag": tag, "count": n, "runs": runs,
                        "allowed": max(floor, int(max_frac * runs))})
    return out


def write_batch_replay(lane, seed, tier, sub, nruns, g):
    os.makedirs(REPLAYS, exist_ok=True)
    path = os.path.join(REPLAYS, "%s-batch-%s-%s-%s.json" % (lane.prop, seed, sub, g["tag"].replace(":", "_")))
    doc = {"property": lane.prop, "batch": {"seed": seed, "tier": tier, "sub": sub, "nruns": nruns}, "expect": g}
    with open(path, "w") as f:
        json.dump(doc, f, indent=1, sort_keys=True)
    return path


def write_replay(lane, scn, decisions, res, seed, run, tag="v"):
    os.makedirs(REPLAYS, exist_ok=True)
    path = os.path.join(REPLAYS, "%s-%s-%s-%s.json" % (lane.prop, tag, seed, run))
    doc = {"property": lane.prop, "seed": seed, "run": run, "scenario": scn, "decisions": decisions,
           "expect": {"classes": vclasses(res), "digest": res["digest"],
                      "viol": res["viol"][:6]}}
    with open(path, "w") as f:
        json.dump(doc, f, indent=1, sort_keys=True, default=str)
    return path


def replay_file(lane, path):
    doc = json.load(open(path))
    res = lane.execute(doc["scenario"], guide=doc["decisions"])
    return doc, res


def fresh_replay(prop, path):
    """Replay in a fresh interpreter; returns (reproduced?, same digest?, raw output)."""
    env = dict(os.environ, PYTHONHASHSEED="777")
    p = subprocess.run([PY, os.path.join(ROOT, "check"), prop, "--replay", path, "--quiet"],
                       env=env, capture_output=True, text=True, timeout=300)
    rep = "REPLAY reproduced=yes" in p.stdout
    same = "digest=same" in p.stdout
    return rep, same, p.stdout + p.stderr


# --------------------------------------------------------------- findings
def load_findings(prop):
    if not os.path.exists(FINDINGS_FILE):
        return []
    doc = json.load(open(FINDINGS_FILE))
    return [f for f in doc.get("findings", []) if f.get("property") == prop]


# ------------------------------------------------------------------- main
def main(lane, argv=None):
    ap = argparse.ArgumentParser()
    ap.add_argument("prop")
    ap.add_argument("--tier", default=os.environ.get("VERIF_TIER", "quick"))
    ap.add_argument("--replay")
    ap.add_argument("--quiet", action="store_true")
    ap.add_argument("--digests", nargs=2, metavar=("SUB", "N"))
    ap.add_argument("--jobs", type=int, default=int(os.environ.get("VERIF_JOBS", "0")) or (os.cpu_count() or 4))
    ap.add_argument("--scale", type=float, default=float(os.environ.get("VERIF_SCALE", "1")))
    ap.add_argument("--no-selftest", action="store_true")
    ap.add_argument("--no-evidence", action="store_true")
    a = ap.parse_args(argv)
    tier = a.tier if a.tier in ("quick", "thorough") else "quick"
    try:
        seed = int(os.environ.get("VERIF_SEED", "20261004"))
    except ValueError:
        seed = 20261004
    try:
        from sim import shims
        shims.audit()
        if a.digests:
            for d in digests_for(lane, seed, tier, a.digests[0], range(int(a.digests[1]))):
                print("DIGEST " + d)
            return 0
        if a.replay:
            return do_replay(lane, a.replay, a.quiet)
        return do_check(lane, seed, tier, a)
    except Exception as e:
        from sim.kernel import HarnessError
        kind = "HARNESS-ERROR" if isinstance(e, HarnessError) else "HARNESS-ERROR (unexpected)"
        print("%s property=%s %s: %s" % (kind, lane.prop, type(e).__name__, e))
        traceback.print_exc()
        return 2


def do_replay(lane, path, quiet):
    doc0 = json.load(open(path))
    if "batch" in doc0:
        b = doc0["batch"]
        agg, errs = run_batch(lane, b["seed"], b["tier"], b["sub"], b["nruns"], os.cpu_count() or 4, 3600)
        stats = {"runs": agg["runs"], "findings": dict(agg["findings"]), "excused": dict(agg["excused"])}
        gv = guard_violations(lane, b["sub"], stats)
        print("REPLAY batch sub=%s runs=%d findings=%s excused=%s" % (b["sub"], agg["runs"], stats["findings"], stats["excused"]))
        if gv:
            for g in gv:
                print("  ", jdump(g))
            print("VIOLATION property=%s replay=%s" % (lane.prop, path))
            return 1
        return 0
    doc, res = replay_file(lane, path)
    want = doc["expect"]["classes"]
    got = vclasses(res)
    rep = bool(set(want) & set(got)) if want else False
    same = res["digest"] == doc["expect"]["digest"]
    print("REPLAY reproduced=%s digest=%s classes=%s attributed_findings=%s"
          % ("yes" if rep else "no", "same" if same else "different", got, res.get("findings", [])))
    if not quiet:
        for v in res["viol"][:6]:
            print("  ", jdump(v))
    if got:
        print("VIOLATION property=%s replay=%s" % (lane.prop, path))
        return 1
    return 0


def do_check(lane, seed, tier, a):
    t0 = time.time()
    errors = []
    out_viol = []          # (path, classes)
    known_lines = []
    # 0. determinism self-test
    st = {"runs_checked": 0, "problems": []}
    if not a.no_selftest:
        n = 6 if tier == "quick" else 48
        st["problems"], st_ref = selftest_determinism(lane, seed, tier, n)
        st["runs_checked"] = n * len(lane.subs(tier)) * 3
        if tier == "thorough":
            # a further leg at another worker count (3 instead of 16)
            for sub, _ in lane.subs(tier):
                agg3, errs3 = run_batch(lane, seed, tier, sub, n, 3, 900)
                errors.extend(errs3)
                for i, d in enumerate(st_ref.get(sub, [])):
                    if agg3["first_digests"].get(i) != d:
                        st["problems"].append("run %d of sub-lane %s differs in a 3-worker batch" % (i, sub))
                        break
            st["runs_checked"] += n * len(lane.subs(tier))
        for p in st["problems"]:
            errors.append("non-deterministic: " + p)
    # 1. pinned replays of recorded findings
    pinned = []
    for f in load_findings(lane.prop):
        path = os.path.join(ROOT, f["replay"]) if f.get("replay") else None
        if not path or not os.path.exists(path):
            continue
        doc, res = replay_file(lane, path)
        got = vclasses(res)
        if "harness" in got:
            errors.append("harness failure while replaying %s: %s" % (f["replay"], res["viol"][:1]))
            continue
        explained = res.get("findings", [])
        if f["status"] == "open":
            if f["id"] in explained and not got:
                known_lines.append("KNOWN-FINDING: property=%s %s" % (lane.prop, f["what"]))
                pinned.append({"id": f["id"], "status": "open", "reproduces": True})
            elif got:
                p2 = write_replay(lane, doc["scenario"], doc["decisions"], res, seed, "pinned-" + f["id"])
                out_viol.append((p2, got))
                pinned.append({"id": f["id"], "status": "open", "reproduces": "as-unlisted-violation"})
            else:
                pinned.append({"id": f["id"], "status": "open", "reproduces": False})
        else:
            if got:
                p2 = write_replay(lane, doc["scenario"], doc["decisions"], res, seed, "regressed-" + f["id"])
                out_viol.append((p2, got))
                pinned.append({"id": f["id"], "status": "fixed", "regressed": True})
            else:
                pinned.append({"id": f["id"], "status": "fixed", "regressed": False})
    # 2. exploration
    st_ref = locals().get("st_ref", {})
    total = new_agg()
    per_sub = {}
    subs = [(sub, max(1, int(n * a.scale))) for sub, n in lane.subs(tier)]
    budget = (75.0 if tier == "quick" else 900.0) * max(1.0, a.scale)
    weights = sum(n for _, n in subs) or 1
    for sub, nruns in subs:
        agg, errs = run_batch(lane, seed, tier, sub, nruns, a.jobs, budget * nruns / weights + 15)
        errors.extend(errs)
        per_sub[sub] = {"runs": agg["runs"], "planned": nruns, "violating_runs": agg["nviol"],
                        "nontrivial": agg["nontrivial"], "findings": dict(agg["findings"]),
                        "excused": dict(agg["excused"])}
        # rate guard: a known finding may excuse only about as many runs as it does on the
        # unchanged tree; a change that makes the excuse necessary far more often is hiding
        # behind the finding (DESIGN.md 4)
        for g in guard_violations(lane, sub, per_sub[sub]):
            path = write_batch_replay(lane, seed, tier, sub, nruns, g)
            out_viol.append((path, [g["cls"]]))
        for v in agg["viol"]:
            v["sub"] = sub
        # the same run indices executed in a forked worker among 15 siblings must give the
        # digests the in-process self-test saw (third leg of the determinism proof)
        for i, d in enumerate(st_ref.get(sub, [])):
            if i in agg["first_digests"] and agg["first_digests"][i] != d:
                errors.append("non-deterministic: run %d of sub-lane %s differs between the parallel batch "
                              "and the in-process self-test" % (i, sub))
                break
        agg["first_digests"] = {}
        merge(total, agg)
    for h in total.get("harness", [])[:5]:
        errors.append("harness failure inside a run: " + h)
    ev_extra, extra_viol, extra_cov = lane.extra_phases(seed, tier, a.jobs)
    for v in extra_viol:
        total["viol"].append(v)
    # 3. findings observed by attribution in finding lanes
    open_ids = {f["id"]: f for f in load_findings(lane.prop) if f["status"] == "open"}
    for fid, cnt in sorted(total["findings"].items()):
        if fid in open_ids:
            line = "KNOWN-FINDING: property=%s %s" % (lane.prop, open_ids[fid]["what"])
            if line not in known_lines:
                known_lines.append(line)
        else:
            errors.append("lane attributed runs to finding %s which is not listed as open" % fid)
    # 4. minimise + replay files for violations (one per class, at most 3)
    seen = set()
    for v in sorted(total["viol"], key=lambda v: (v.get("sub", ""), v["run"])):
        cls = v["classes"][0] if v["classes"] else "?"
        if cls in seen or len(seen) >= 3:
            continue
        seen.add(cls)
        scn, dec = v["scn"], v["decisions"]
        ok, res0 = reproduces(lane, scn, dec, cls)
        if not ok:
            errors.append("non-reproducible: run %s class %s did not recur under guided replay" % (v["run"], cls))
            continue
        ms, md, nexec = minimise(lane, scn, dec, cls)
        ok, res = reproduces(lane, ms, md, cls)
        # A minimised scenario may sit on a threshold where the violation depends on state of the
        # interpreter the simulator does not own (seen with a change that recurses to Python's
        # frame limit: whether the handler of the RecursionError fits depends on warm caches).
        # Such a reduction is discarded and the unminimised run is reported instead; the replay
        # file that is printed always reproduces in a fresh interpreter.
        cands = ([(ms, md, res)] if ok else []) + [(scn, dec, res0)]
        raw = ""
        for cs, cd, cres in cands:
            path = write_replay(lane, cs, cd, cres, seed, v["run"])
            rep, same, raw = fresh_replay(lane.prop, path)
            if rep and same:
                out_viol.append((path, vclasses(cres)))
                break
        else:
            errors.append("non-reproducible in fresh interpreter: %s (%s)" % (path, raw[-200:]))
    wall = time.time() - t0
    # 5. evidence
    if not a.no_evidence:
        write_evidence(lane, seed, tier, total, per_sub, st, pinned, known_lines, out_viol, errors,
                       wall, ev_extra, extra_cov)
    for l in known_lines:
        print(l)
    print("SUMMARY property=%s tier=%s seed=%s runs=%d nontrivial=%d distinct=%d violating_runs=%d wall=%.1fs"
          % (lane.prop, tier, seed, total["runs"] + ev_extra, total["nontrivial"], len(total["digests"]),
             total["nviol"], wall))
    if errors:
        for e in errors:
            print("HARNESS-ERROR property=%s %s" % (lane.prop, e))
        return 2
    if out_viol:
        for path, classes in out_viol:
            print("VIOLATION property=%s replay=%s classes=%s" % (lane.prop, path, ",".join(classes)))
        return 1
    return 0


KEY_SITES = [
    ("printcore.py", "self.resendfrom = lineno + 1"), ("printcore.py", "lineno = self.resendfrom"),
    ("printcore.py", "self.resendfrom = toresend"), ("printcore.py", "self.clear = False"),
    ("printcore.py", "if self.resendfrom < self.lineno and self.resendfrom > -1:"),
    ("printcore.py", "self.lineno += 1"), ("printcore.py", "self.printing = False"),
    ("printcore.py", "self.resendfrom = -1"),
    ("printrun_writer.py", "self._ack_event.clear()"), ("printrun_writer.py", "self._device.send(command)"),
    ("printrun_writer.py", "self._ack_event.wait()"), ("printrun_writer.py", "self._device_error = DeviceError(error_message)"),
    ("printrun_writer.py", "self._parse_message(message)"), ("printrun_writer.py", "self._current_params[key] = value"),
    ("printrun_writer.py", "exception = self._device_error"), ("printrun_writer.py", "while self.has_pending_operations:"),
    ("device.py", "self._read_buffer.append(chunk)"), ("device.py", "self._read_buffer = []"),
]


def _source_index():
    import linecache
    from sim import shims
    out = {}
    for mod in shims.repo_modules().values():
        f = getattr(mod, "__file__", None)
        if f:
            out[os.path.basename(f)] = f
    return out, linecache


def annotate_locs(items):
    files, linecache = _source_index()
    out = {}
    for loc, n in items:
        base, _, ln = loc.partition(":")
        text = ""
        if base in files and ln.isdigit():
            text = linecache.getline(files[base], int(ln)).strip()
        out["%s  %s" % (loc, text[:70])] = n
    return out


def key_sites(locs):
    """How often a thread was pre-empted (switched away from or stalled) exactly at
    statements the properties' races hinge on - looked up by source text, not line number."""
    files, linecache = _source_index()
    out = {}
    for base, text in KEY_SITES:
        f = files.get(base)
        if not f:
            continue
        lines = [i + 1 for i, l in enumerate(linecache.getlines(f)) if l.strip() == text]
        out["%s: %s" % (base, text)] = sum(locs.get("%s:%d" % (base, ln), 0) for ln in lines)
    return out


def write_evidence(lane, seed, tier, total, per_sub, st, pinned, known_lines, out_viol, errors,
                   wall, ev_extra, extra_cov):
    runs = total["runs"]
    cov = {
        "evaluations": runs + ev_extra,
        "distinct_nontrivial": len(total["digests"]) + int(extra_cov.get("distinct_nontrivial", 0)),
        "rule": lane.rule,
        "samples": total["samples"][:3] or [{"note": "no non-trivial run in this batch"}],
        "exhaustive": False,
        "simulated_runs": runs,
        "runs_per_hour": int(runs / wall * 3600) if wall > 0 else 0,
        "simulated_seconds": round(total["vtime"], 3),
        "traced_line_steps": total["steps"],
        "context_switches": total["switches"],
        "distinct_schedule_digests": len(total["sched_digests"]),
        "distinct_switch_pairs": len(total["pairs"]),
        "distinct_preempted_source_lines": len(total["locs"]),
        "most_preempted_source_lines": annotate_locs(sorted(total["locs"].items(), key=lambda kv: -kv[1])[:30]),
        "preemptions_at_key_sites": key_sites(total["locs"]),
        "fault_and_probe_counts_fired": dict(sorted(total["probes"].items())),
        "thread_stalls_injected": total["stalls"],
        "run_outcomes": total["aborts"],
        "per_sub_lane": per_sub,
        "determinism_selftest": st,
        "pinned_findings": pinned,
        "known_finding_lines": known_lines,
        "harness_errors": errors,
        "replays": [p for p, _ in out_viol],
        "real_vs_stub": lane.real_vs_stub,
        "technique": lane.technique,
    }
    for kk, v in extra_cov.items():
        if kk != "distinct_nontrivial":
            cov[kk] = v
    doc = {"property_id": lane.prop, "tier": tier, "seed": seed, "level": lane.level, "coverage": cov,
           "assumptions": list(lane.assumptions), "wall_s": round(wall, 2),
           "violations": len(out_viol)}
    os.makedirs(os.path.join(ROOT, "evidence"), exist_ok=True)
    with open(os.path.join(ROOT, "evidence", lane.prop + ".json"), "w") as f:
        json.dump(doc, f, indent=1, sort_keys=True, default=str)
