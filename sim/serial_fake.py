"""Stand-in for serial.Serial on the simulation kernel (whole-line delivery)."""
import serial as _real_serial

ENV = None  # set by shims.install(): dict(k=..., fw=..., link=..., draws=...)


class FakeSerial:
    def __init__(self, port=None, baudrate=9600, timeout=None, parity=None, write_timeout=None, **kw):
        self.write_timeout = write_timeout     # pyserial: None = a write blocks until it is done
        self.port = port
        self.baudrate = baudrate
        self.timeout = timeout
        self.parity = parity
        self.is_open = False
        self._dtr = None
        self.rxq = []
        self.quiet_reads = 0     # timed-out reads since the last delivery (observation only)
        self.broken = False
        self.env = ENV
        self.k = ENV["k"]
        if port is not None:
            self.open()

    @property
    def dtr(self):
        return self._dtr

    @dtr.setter
    def dtr(self, v):
        self._dtr = v

    def open(self):
        if self.env.get("open_fails") or not str(self.port).startswith(("/dev/", "COM")):
            # only device names exist as serial ports; "host:port" strings and the like do not
            raise _real_serial.SerialException("could not open port %s: No such file or directory" % self.port)
        self.is_open = True
        self.k.ev("serial-open", self.port)
        self.env["port"] = self
        self.env["fw"].attach(self)

    def close(self):
        self.k.check_abort()
        self.is_open = False
        self.k.ev("serial-close")
        self.env["closed_seq"] = self.k.seq

    # device -> host
    def deliver(self, data):
        if self.is_open and not self.broken:
            self.rxq.append(data)
            self.quiet_reads = 0
            return True
        return False

    def break_link(self):
        self.broken = True
        self.k.probe("fault.serial_break")

    def readline(self):
        k = self.k
        if not self.is_open:
            raise _real_serial.SerialException("port is closed")
        if self.broken:
            raise _real_serial.SerialException("device reports readiness to read but returned no data")
        k.block(lambda: bool(self.rxq) or self.broken, self.timeout, "serial.readline")
        if self.broken:
            raise _real_serial.SerialException("device disconnected")
        if self.rxq:
            return self.rxq.pop(0)
        k.probe("serial.read_timeout")
        self.quiet_reads += 1
        return b""

    def write(self, data):
        k = self.k
        k.check_abort()
        if not self.is_open:
            raise _real_serial.SerialException("port is closed")
        if self.broken:
            raise _real_serial.SerialException("write failed: device disconnected")
        # back-pressure: the adapter accepts the bytes only after a while (device busy, buffer full)
        blk = self.env["draws"].next("wblock", 0)
        if blk:
            k.probe("serial.write_blocked")
            if self.write_timeout is not None and blk > self.write_timeout:
                k.sleep(self.write_timeout)
                self.env["link"].send(bytes(data)[:max(1, len(data) // 2)])    # a prefix went out
                raise _real_serial.SerialTimeoutException("Write timeout")
            k.sleep(blk)
        n = self.env["link"].send(data)
        k.point("serial.write")
        return n
