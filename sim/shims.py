"""Seams: module-namespace substitution for the code under test (no /repo hook).

``install(k)`` rebinds the names through which printcore / device /
printrun_writer reach threads, clocks, queues, serial ports, sockets, selectors
and signals to objects owned by kernel ``k``.  ``audit()`` checks, once per
process and *before* anything is replaced, that every name we replace exists and
is bound to the expected stdlib / pyserial object, so that a refactor of the
imports cannot silently detach the simulator (exit 2, never 0, never VIOLATION).
"""
import importlib
import os
import queue as _queue
import sys
import threading as _th
import time as _time

from .kernel import HarnessError, Shim, SimEvent, SimLock

REPO = os.environ.get("VERIF_REPO", "/repo")

_mods = {}
_orig = {}


def repo_modules():
    """Import gscrib from the working tree under test and return the seam modules."""
    if _mods:
        return _mods
    if REPO not in sys.path:
        sys.path.insert(0, REPO)
    import gscrib  # noqa
    if not os.path.abspath(gscrib.__file__).startswith(os.path.abspath(REPO) + os.sep):
        raise HarnessError("gscrib imported from %s, expected under %s" % (gscrib.__file__, REPO))
    _mods["pc"] = importlib.import_module("gscrib.printrun.printcore")
    _mods["dev"] = importlib.import_module("gscrib.printrun.device")
    _mods["pw"] = importlib.import_module("gscrib.writers.printrun_writer")
    _mods["gc"] = importlib.import_module("gscrib.printrun.gcoder")
    _mods["fw"] = importlib.import_module("gscrib.writers.file_writer")
    _mods["core"] = importlib.import_module("gscrib.gcode_core")
    return _mods


def audit():
    """Seam audit. Raises HarnessError('seam moved: ...') when a seam is gone."""
    import selectors
    import signal
    import socket
    import platform
    import serial
    m = repo_modules()
    if _orig:
        return
    want = [
        ("pc", "threading", _th), ("pc", "time", _time), ("pc", "Queue", _queue.Queue),
        ("pc", "QueueEmpty", _queue.Empty),
        ("dev", "serial", serial), ("dev", "socket", socket), ("dev", "selectors", selectors),
        ("dev", "platform", platform), ("dev", "time", _time),
        ("pw", "threading", _th), ("pw", "time", _time), ("pw", "signal", signal),
    ]
    for mod, name, obj in want:
        got = getattr(m[mod], name, None)
        if got is not obj:
            raise HarnessError("seam moved: %s.%s is %r" % (m[mod].__name__, name, got))
        _orig[(mod, name)] = got
    pcc = m["pc"].printcore
    for fn in ("connect", "disconnect"):
        f = getattr(pcc, fn)
        if not hasattr(f, "lock") or not hasattr(f.lock, "acquire"):
            raise HarnessError("seam moved: printcore.%s.lock" % fn)
        _orig[("pclock", fn)] = f.lock
    # names the code must NOT have imported directly (would bypass the seams)
    for mod in ("pc", "dev", "pw"):
        for bad in ("sleep", "Thread", "Event", "monotonic", "select"):
            if hasattr(m[mod], bad):
                raise HarnessError("seam moved: %s imports %s directly" % (m[mod].__name__, bad))
    for nm in ("current_e_multi", "total_e_multi", "max_e_multi", "offset_e_multi",
               "filament_length_multi"):
        if not isinstance(getattr(m["gc"].GCode, nm, None), list):
            raise HarnessError("seam moved: gcoder.GCode.%s" % nm)


_class_state = {}


def _restore_class_state(m):
    """Runs share one process: plain (non-callable) class attributes of the classes under test
    are put back to their import-time values before every run, so that state a run leaves on a
    class (a mutated class-level list, a flag set on the class) cannot leak into the next one
    and make a failure irreproducible in a fresh interpreter."""
    import copy
    classes = [m["pw"].PrintrunWriter, m["pc"].printcore, m["dev"].Device, m["gc"].GCode, m["fw"].FileWriter,
               m["core"].GCodeCore]
    for cls in classes:
        key = cls.__module__ + "." + cls.__qualname__
        if key not in _class_state:
            snap = {}
            for name, val in list(vars(cls).items()):
                if name.startswith("__") or callable(val) or isinstance(val, (property, staticmethod, classmethod)):
                    continue
                if hasattr(val, "__get__") and not isinstance(val, (int, float, str, bytes, bool, list, dict, set, tuple, type(None))):
                    continue          # slots / descriptors
                try:
                    snap[name] = copy.deepcopy(val)
                except Exception:
                    pass
            _class_state[key] = (set(n for n in vars(cls)), snap)
            continue
        names0, snap = _class_state[key]
        for name in [n for n in vars(cls) if n not in names0 and not n.startswith("__")]:
            try:
                delattr(cls, name)       # an attribute a previous run created on the class
            except (AttributeError, TypeError):
                pass
        for name, val in snap.items():
            try:
                setattr(cls, name, copy.deepcopy(val))
            except (AttributeError, TypeError):
                pass


class SimQueue:
    def __init__(self, k, maxsize=0):
        self.k = k
        self.q = []
        self.quiet_gets = 0      # timed-out get() calls since the last put (observation only)
        self.consumer = None     # last simulated thread that blocked in get()
        if not hasattr(k, "queues"):
            k.queues = []
        k.queues.append(self)

    def put_nowait(self, x):
        self.k.check_abort()
        self.q.append(x)
        self.quiet_gets = 0
        self.k.point("q.put")

    def put(self, x, block=True, timeout=None):
        self.put_nowait(x)

    def get(self, block=True, timeout=None):
        if not block:
            return self.get_nowait()
        self.consumer = self.k.me()
        self.k.block(lambda: bool(self.q), timeout, "q.get")
        if not self.q:
            self.quiet_gets += 1
            raise _queue.Empty
        return self.q.pop(0)

    def get_nowait(self):
        self.k.check_abort()
        if not self.q:
            raise _queue.Empty
        return self.q.pop(0)

    def empty(self):
        return not self.q

    def qsize(self):
        return len(self.q)

    def task_done(self):
        pass


def time_shim(k):
    return Shim(sleep=k.sleep, time=lambda: 1.7e9 + k.now, monotonic=lambda: k.now,
                perf_counter=lambda: k.now)


def threading_shim(k):
    return Shim(Thread=k.Thread, Event=lambda: SimEvent(k), Lock=lambda: SimLock(k),
                RLock=lambda: SimLock(k), current_thread=k.current_thread,
                main_thread=lambda: k.threads[0] if k.threads else None)


def install(k, env):
    """Bind all seams to kernel k; env carries the fakes' shared state."""
    import selectors
    import socket
    import serial
    import logging
    from . import serial_fake, socket_fake
    audit()
    m = repo_modules()
    logging.disable(logging.CRITICAL)
    pc, dev, pw, gc = m["pc"], m["dev"], m["pw"], m["gc"]
    pc.threading = threading_shim(k)
    pc.time = time_shim(k)
    pc.Queue = lambda n=0: SimQueue(k, n)
    pc.printcore.connect.lock = SimLock(k)
    pc.printcore.disconnect.lock = SimLock(k)
    serial_fake.ENV = env
    socket_fake.ENV = env
    dev.serial = Shim(Serial=serial_fake.FakeSerial, SerialException=serial.SerialException,
                      PARITY_ODD=serial.PARITY_ODD, PARITY_NONE=serial.PARITY_NONE)
    dev.socket = Shim(socket=socket_fake.FakeSocket, AF_INET=socket.AF_INET,
                      SOCK_STREAM=socket.SOCK_STREAM, IPPROTO_TCP=socket.IPPROTO_TCP,
                      TCP_NODELAY=socket.TCP_NODELAY, timeout=socket.timeout)
    dev.selectors = Shim(DefaultSelector=socket_fake.FakeSelector,
                         EVENT_READ=selectors.EVENT_READ)
    dev.platform = Shim(system=lambda: "Sim")
    dev.time = time_shim(k)
    pw.threading = threading_shim(k)
    pw.time = time_shim(k)
    env["signals"] = {}
    pw.signal = Shim(signal=lambda num, h: env["signals"].__setitem__(num, h),
                     SIGTERM=15, SIGINT=2)
    for nm in ("current_e_multi", "total_e_multi", "max_e_multi", "offset_e_multi",
               "filament_length_multi"):
        setattr(gc.GCode, nm, [0])
    _restore_class_state(m)
    k.trace_files |= {pc.__file__, dev.__file__, pw.__file__}
    if k.policy == "hot":
        from .kernel import hot_lines
        k.hot = hot_lines(k.trace_files)
    _arm_tripwires(k)


def uninstall():
    m = repo_modules()
    for (mod, name), obj in _orig.items():
        if mod == "pclock":
            getattr(m["pc"].printcore, name).lock = obj
        else:
            setattr(m[mod], name, obj)
    _disarm_tripwires()


# --------------------------------------------------------------- trip-wires
_tw = {}


def _arm_tripwires(k):
    """Real blocking calls issued from a simulated thread are harness errors.

    A leaked real sleep / thread / event wait / queue get would make results depend on the
    host's scheduler; the trip-wires turn such a leak into an abort with reason
    'tripwire:<what>' (reported as HARNESS-ERROR, never as a result)."""
    if _tw:
        _tw["k"] = k
        return
    _tw["k"] = k

    tl = _th.local()

    def leaked(what):
        kk = _tw.get("k")
        if kk is None or kk.aborting or getattr(tl, "allow", 0):
            return False
        if kk.by_ident.get(_th.get_ident()) is None:
            return False
        kk.ev("TRIPWIRE", what)
        kk.abort("tripwire:" + what)
        return True

    real_sleep = _time.sleep
    real_start = _th.Thread.start
    real_wait = _th.Event.wait
    real_get = _queue.Queue.get

    def sleep(d):
        if leaked("time.sleep"):
            raise HarnessError("real time.sleep called from a simulated thread")
        return real_sleep(d)

    def start(self):
        if not self.name.startswith("sim:") and leaked("Thread.start"):
            raise HarnessError("real threading.Thread started from a simulated thread")
        tl.allow = getattr(tl, "allow", 0) + 1     # Thread.start() itself waits on an Event
        try:
            return real_start(self)
        finally:
            tl.allow -= 1

    def wait(self, timeout=None):
        if leaked("Event.wait"):
            raise HarnessError("real threading.Event.wait called from a simulated thread")
        return real_wait(self, timeout)

    def get(self, block=True, timeout=None):
        if block and leaked("Queue.get"):
            raise HarnessError("real blocking queue.Queue.get called from a simulated thread")
        return real_get(self, block, timeout)

    _tw["orig"] = (real_sleep, real_start, real_wait, real_get)
    _time.sleep = sleep
    _th.Thread.start = start
    _th.Event.wait = wait
    _queue.Queue.get = get


def _disarm_tripwires():
    if "orig" in _tw:
        _time.sleep, _th.Thread.start, _th.Event.wait, _queue.Queue.get = _tw["orig"]
    _tw.clear()
