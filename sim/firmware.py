"""Peer model: a sequential line-at-a-time firmware plus the host<->device link.

Contract of the model (stated in DESIGN.md 2.3): lines are processed strictly in
arrival order, one reply block per received line, the reply block of line k is
emitted before line k+1 is looked at.  Numbered lines (``N<k> ...*<cs>``) are
checked the way Marlin does (XOR checksum over the bytes before ``*``; k must be
last+1 unless the command is M110; ``M110 N<n>`` sets last).  On a bad line the
model answers ``Error:<why>, Last Line: n`` / ``Resend: n+1`` and, when
``resend_with_ok`` is set (real Marlin), a trailing ``ok``.

Nothing here draws from a PRNG: every latency, gap and delay comes from the
scenario's materialised ``draws`` lists (cyclic), so a replay file is
self-contained and the minimiser can zero single entries.
"""
import re


class Draws:
    def __init__(self, spec):
        self.spec = spec or {}
        self.idx = {}
        self.used = {}

    def next(self, name, default=0.0):
        lst = self.spec.get(name)
        i = self.idx.get(name, 0)
        self.idx[name] = i + 1
        if not lst:
            return default
        return lst[i % len(lst)]


ACK_PREFIXES = ("ok",)
ERR_PREFIXES = ("error", "alarm", "!!")

_num_re = re.compile(r"^N(-?\d+)\s*(.*)$")


def xor_checksum(text):
    cs = 0
    for ch in text:
        cs ^= ord(ch)
    return cs


class Firmware:
    def __init__(self, k, cfg, draws):
        self.k = k
        self.cfg = cfg
        self.draws = draws
        self.port = None
        self.last_n = 0
        self.rx = []        # dict(idx, seq, t, text, tx)
        self.emitted = []   # dict(seq, t, text, answers, ack, err)
        self.accepted = []  # dict(seq, cmd, n, idx)
        self.rejected = []  # dict(seq, idx, why)
        self.busy_until = 0.0
        self.tx_until = 0.0
        self.dead = False
        self.resend_with_ok = bool(cfg.get("resend_with_ok", True))
        self.greeting = cfg.get("greeting", "start")
        self.boot_delay = float(cfg.get("boot", 0.05))
        self.reply_hook = None     # callable(fw, idx, cmd) -> list[str] | None
        self.lat_hook = None       # callable(idx, text) -> extra latency in seconds
        self.rxpartial = b""
        self.eol = cfg.get("dev_eol", "\n")      # Grbl terminates its lines with CR LF
        self.resend_fmt = cfg.get("resend_fmt", "Resend: {n}")
        self.ok_style = cfg.get("ok_style", "plain")
        self.rx_hook = None        # callable(fw, idx, text) at arrival
        self.processed_hook = None  # callable(fw, idx) after the reply block was queued
        self.nboots = 0
        self.nproc = 0
        self.pending = 0          # scheduled but not yet executed _process / _emit_now timers
        self.drop_while_booting = bool(cfg.get("drop_while_booting", False))
        self.boot_done_at = 0.0

    # ------------------------------------------------------------ lifecycle
    def attach(self, port):
        self.port = port
        self.nboots += 1
        self.last_n = 0
        self.rxpartial = b""
        self.boot_done_at = self.k.now + self.boot_delay
        if self.greeting:
            for i, g in enumerate(self.greeting.split("\n")):
                self.pending += 1
                self.k.after(self.boot_delay + i * 1e-4, self._emit_later, g, None, False)

    def kill(self):
        self.dead = True

    # ------------------------------------------------------------- emission
    def emit(self, text, answers=None, final=False):
        """Queue one device->host line; lines are spaced by the per-line gap draw."""
        if self.dead:
            return
        gap = self.draws.next("gap", 0.0)
        t = max(self.k.now, self.tx_until) + gap
        self.tx_until = t
        if t <= self.k.now:
            self._emit_now(text, answers, final)
        else:
            self.pending += 1
            self.k.at(t, self._emit_later, text, answers, final)

    def _emit_later(self, text, answers, final):
        self.pending -= 1
        self._emit_now(text, answers, final)

    def _emit_now(self, text, answers, final):
        if self.dead or self.port is None:
            return
        low = text.lower()
        ack = low.startswith(ACK_PREFIXES)
        err = low.startswith(ERR_PREFIXES)
        s = self.k.ev("dev->host", text, answers)
        got = self.port.deliver((text + self.eol).encode("utf-8", "surrogateescape"))
        self.emitted.append({"seq": s, "t": self.k.now, "text": text, "answers": answers,
                             "ack": ack, "err": err, "final": final, "dropped": not got})

    def unsolicited(self, text):
        if self.k.now < self.boot_done_at:
            self.k.probe("fault.unsolicited_skipped_while_booting")   # a booting device is silent
            return
        if not self.dead:
            self.k.probe("fault.unsolicited")
            self._emit_now(text, None, False)

    # ------------------------------------------------------------ reception
    def on_bytes(self, data, tx):
        """Bytes of one host write arrive (after the link delay)."""
        if self.dead:
            return
        # the link is a byte stream: a line is complete only when its newline has arrived
        self.rxpartial += data
        parts = self.rxpartial.split(b"\n")
        self.rxpartial = parts.pop()
        if self.rxpartial:
            self.k.probe("fw.partial_line_buffered")
        for raw in parts:
            text = raw.decode("latin1")
            idx = len(self.rx)
            s = self.k.ev("dev-rx", idx, text)
            self.rx.append({"idx": idx, "seq": s, "t": self.k.now, "text": text, "tx": tx})
            if self.rx_hook is not None:
                self.rx_hook(self, idx, text)
            if self.drop_while_booting and self.k.now < self.boot_done_at:
                self.k.probe("fw.dropped_while_booting")
                continue
            lat = self.draws.next("lat", 0.0)
            if self.lat_hook is not None:
                lat += self.lat_hook(idx, text)
            t = max(self.k.now, self.busy_until, self.boot_done_at) + lat
            self.busy_until = t
            self.pending += 1
            self.k.at(t, self._process, idx, text)

    def _process(self, idx, text):
        self.pending -= 1
        if self.dead:
            return
        self.nproc += 1
        line = text.strip()
        if not line:
            return
        n = None
        cmd = line
        bad = None
        m = _num_re.match(line)
        if m:
            star = line.rfind("*")
            if star < 0:
                bad = "No Checksum with line number"
            else:
                try:
                    good = int(line[star + 1:]) == xor_checksum(line[:star])
                except ValueError:
                    good = False
                if not good:
                    bad = "checksum mismatch"
                else:
                    n = int(m.group(1))
                    cmd = re.sub(r"^N-?\d+\s*", "", line[:star]).strip()
                    if n != self.last_n + 1 and not cmd.startswith("M110"):
                        bad = "Line Number is not Last Line Number+1"
        elif "*" in line:
            bad = "No Line Number with checksum"
        if bad:
            s = self.k.ev("dev-reject", idx, bad, self.last_n)
            self.rejected.append({"seq": s, "idx": idx, "why": bad})
            self.emit("Error:%s, Last Line: %d" % (bad, self.last_n), idx)
            self.emit(self.resend_fmt.format(n=self.last_n + 1), idx)
            if self.resend_with_ok:
                self.emit("ok", idx, True)
            if self.processed_hook is not None:
                self.processed_hook(self, idx)
            return
        if n is not None:
            self.last_n = n
            mm = re.match(r"M110\s*N(-?\d+)", cmd)
            if mm:
                self.last_n = int(mm.group(1))
        s = self.k.ev("dev-accept", idx, cmd, n)
        self.accepted.append({"seq": s, "cmd": cmd, "n": n, "idx": idx})
        rep = self.reply_hook(self, idx, cmd) if self.reply_hook is not None else None
        if rep is None:
            if self.ok_style == "advanced":
                rep = ["ok N%d P15 B3" % (n if n is not None else 0)]       # Marlin ADVANCED_OK
            elif self.ok_style == "temp" and cmd.upper().startswith("M105"):
                rep = ["ok T:201.3 /200.0 B:60.1 /60.0 @:64 B@:32"]         # reading on the ack line
            else:
                rep = ["ok"]
        for j, r in enumerate(rep):
            self.emit(r, idx, j == len(rep) - 1)
        if self.processed_hook is not None:
            self.processed_hook(self, idx)


class Link:
    """Host->device direction: numbering of transmissions, FIFO delay, corruption.

    Corruptions are keyed by the index of the transmission among *numbered* lines
    (those starting with ``N``): index 0 is the M110 reset of the job, 1.. are the
    job lines and their retransmissions in the order they actually go out.
    """

    def __init__(self, k, fw, draws, corrupt=None, corrupt_m110=False):
        self.k = k
        self.fw = fw
        self.draws = draws
        self.corrupt = dict(corrupt or {})   # numbered-tx index -> [mode, position-fraction, replacement]
        self.corrupt_m110 = corrupt_m110
        self.ntx = 0
        self.nnum = 0
        self.arrive_until = 0.0
        self.inflight = 0
        self.last_fault_seq = 0
        self.tx = []  # dict(idx, nidx, seq, t, text, corrupted)

    def send(self, data):
        idx = self.ntx
        self.ntx += 1
        data = bytes(data)
        sent = data
        nidx = None
        c = None
        if data.startswith(b"N"):
            nidx = self.nnum
            self.nnum += 1
            c = self.corrupt.get(nidx)
            if c is not None and b"M110" in data and not self.corrupt_m110:
                c = None
                self.k.probe("fault.corrupt_skipped_m110")
        if c is not None:
            sent = corrupt_line(data, c)
            self.k.probe("fault.corrupt")
        text = data.decode("latin1").rstrip("\n")
        s = self.k.ev("host->dev", idx, text, c is not None)
        if c is not None:
            self.last_fault_seq = s
        self.tx.append({"idx": idx, "nidx": nidx, "seq": s, "t": self.k.now, "text": text,
                        "corrupted": c is not None})
        # the link is FIFO: a transmission never overtakes an earlier one
        t = max(self.arrive_until, self.k.now + self.draws.next("txd", 0.0))
        self.arrive_until = t
        self.inflight += 1
        self.k.at(t, self._arrive, sent, idx)
        return len(data)

    def _arrive(self, sent, idx):
        self.inflight -= 1
        self.fw.on_bytes(sent, idx)


def corrupt_line(data, c):
    """Damage one byte of the line body (never the terminator)."""
    mode, frac, repl = c
    body = data.rstrip(b"\n")
    tail = data[len(body):]
    if not body:
        return data
    pos = min(len(body) - 1, int(frac * len(body)))
    if mode == "del":
        nb = body[:pos] + body[pos + 1:]
    else:
        ch = repl % 256
        if ch == body[pos] or ch in (10, 13):
            ch = (body[pos] ^ 0x15) or 0x55
            if ch in (10, 13):
                ch = 0x55
        nb = body[:pos] + bytes([ch]) + body[pos + 1:]
    return nb + tail
