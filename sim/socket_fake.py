"""Stand-ins for socket.socket / makefile / selectors on the simulation kernel.

Semantics follow what Device._connect_socket sets up: a non-blocking socket
(settimeout(0)) wrapped by an unbuffered 'rwb' file object, so ``read(n)``
returns None when no data is available, b'' at end of stream, or 1..n bytes.
"""
ENV = None


class FakeSockFile:
    def __init__(self, sock):
        self.s = sock
        self.closed = False

    def read(self, n=-1):
        s = self.s
        s.k.check_abort()
        if self.closed:
            raise ValueError("I/O operation on closed file")
        if s.reset:
            raise ConnectionResetError(104, "Connection reset by peer")
        if s.rxbuf:
            m = len(s.rxbuf) if n is None or n < 0 else min(n, len(s.rxbuf))
            cut = s.next_cut(m)
            out = bytes(s.rxbuf[:cut])
            del s.rxbuf[:cut]
            s.k.ev("sock.read", len(out))
            s.handed += out
            s.k.point("sock.read")
            return out
        if s.eof:
            s.k.ev("sock.read", "EOF")
            return b""
        s.k.probe("sock.no_data")
        return None

    def write(self, data):
        s = self.s
        s.k.check_abort()
        if self.closed:
            raise ValueError("I/O operation on closed file")
        if s.reset or s.wfail:
            raise BrokenPipeError(32, "Broken pipe")
        n = s.env["link"].send(bytes(data))
        s.k.point("sock.write")
        return n

    def flush(self):
        pass

    def close(self):
        self.closed = True


class FakeSocket:
    def __init__(self, *a):
        self.env = ENV
        self.k = ENV["k"]
        self.rxbuf = bytearray()
        self.handed = bytearray()
        self.eof = False
        self.reset = False
        self.wfail = False
        self.closed = False
        self.nread = 0
        self.quiet_reads = 0
        self.seg_until = 0.0
        self.inflight = 0
        self.env["port"] = self

    def deliver(self, data):
        """Device -> host bytes.  A line may travel in two TCP segments that arrive `seggap`
        seconds apart (draws 'seg' = split position as a fraction, 0 = no split); later lines
        queue behind a delayed remainder, so the byte stream stays in order."""
        if self.eof or self.reset or self.closed:
            return False
        k = self.k
        frac = self.env["draws"].next("seg", 0)
        t = max(k.now, self.seg_until)
        if frac and len(data) > 1:
            cut = max(1, min(len(data) - 1, int(frac * len(data))))
            gap = self.env["draws"].next("seggap", 0.0)
            self._arrive_at(t, data[:cut])
            self._arrive_at(t + gap, data[cut:])
            self.seg_until = t + gap
            k.probe("sock.line_in_two_segments")
            if gap > 0.25:
                k.probe("sock.segments_gap_over_read_timeout")
        else:
            self._arrive_at(t, data)
        return True

    def _arrive_at(self, t, data):
        if t <= self.k.now and self.inflight == 0:
            self._arrive(data, False)      # nothing queued ahead of it
        else:
            self.inflight += 1
            self.k.at(t, self._arrive, data, True)

    def _arrive(self, data, counted):
        if counted:
            self.inflight -= 1
        if not (self.eof or self.reset or self.closed):
            self.rxbuf += data
            self.quiet_reads = 0

    # faults
    def peer_close(self):
        self.eof = True
        self.k.probe("fault.sock_eof")

    def peer_reset(self):
        self.reset = True
        self.rxbuf.clear()
        self.k.probe("fault.sock_reset")

    def write_fail(self):
        self.wfail = True
        self.k.probe("fault.sock_wfail")

    def next_cut(self, m):
        """How many of the m available bytes this read() hands out (short reads)."""
        if m <= 1:
            return m
        f = self.env["draws"].next("cut", 0)
        if not f:
            return m          # 0: everything that is available
        # >=1: at most that many bytes; (0,1): that fraction of what is available
        cut = max(1, min(m, int(f) if f >= 1 else int(f * m)))
        if cut < m:
            self.k.probe("sock.short_read")
        return cut

    def setsockopt(self, *a):
        pass

    def settimeout(self, t):
        pass

    def connect(self, addr):
        if self.env.get("open_fails"):
            raise ConnectionRefusedError(111, "Connection refused")
        self.k.ev("sock-connect", list(addr))
        self.env["fw"].attach(self)

    def makefile(self, mode, buffering=0):
        return FakeSockFile(self)

    def close(self):
        self.closed = True
        self.k.ev("sock-close")
        self.env["closed_seq"] = self.k.seq


class FakeSelector:
    def __init__(self):
        self.sock = None

    def register(self, sock, ev):
        self.sock = sock

    def unregister(self, sock):
        self.sock = None

    def select(self, timeout=None):
        s = self.sock
        if s is None:
            raise ValueError("selector is closed")
        if s.env["draws"].next("spurious", 0) and not s.rxbuf:
            s.k.probe("sock.spurious_ready")
            s.k.point("select")
            return [(None, 1)]
        s.k.block(lambda: bool(s.rxbuf) or s.eof or s.reset, timeout, "select")
        if s.rxbuf or s.eof or s.reset:
            return [(None, 1)]
        s.k.probe("sock.select_timeout")
        s.quiet_reads += 1
        return []

    def close(self):
        pass
